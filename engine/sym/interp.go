package sym

import (
	"fmt"
	"go/constant"
	"go/token"
	"go/types"
	"math/big"
	"strings"

	"golang.org/x/tools/go/ssa"

	"symgo/smt"
)

// GoPanic is a panic of the interpreted program.
type GoPanic struct {
	Val  Value
	Msg  string
	Pos  string
	Kind string // "explicit", "nil-deref", "index", "div0", "type-assert", ...
}

// pathEnd is thrown (as a Go panic) to end the current path.
type pathEnd struct {
	kind   string // "infeasible", "abort", "stop"
	reason string
}

type frame struct {
	fn       *ssa.Function
	info     *fnInfo
	locals   []Value
	env      []Value
	defers   []*deferred
	panicv   *GoPanic
	block    *ssa.BasicBlock
	prev     *ssa.BasicBlock
	symIfCnt map[ssa.Instruction]int
	result   Value
	callPos  token.Pos
}

type deferred struct {
	fn   *FuncV
	args []Value
	// invoke-mode defers
	builtin *ssa.Builtin
}

type fnInfo struct {
	idx  map[ssa.Value]int
	n    int
	cons map[*ssa.Const]Value
}

type Interp struct {
	C       *smt.Ctx
	S       *smt.Solver
	L       *Loaded
	P       *Path
	Cfg     *Config
	globals map[*ssa.Global]*Obj
	pkgInit map[*ssa.Package]int // 0 none, 1 running, 2 done
	inInit  int
	nobj    int
	fninfo  map[*ssa.Function]*fnInfo
	stack   []*frame
	steps   int64
	// model state is per path
	M *ModelState
	// statistics (accumulated over paths)
	FuncsSeen map[string]bool
	deferRun  []*frame // frames currently running defers while panicking
	undo      map[*Obj]Value
	atomCache map[int][]int
	jr        *JobResult
	work      *workList
	hcfg      *HarnessCfg
	caseN     int
}

type Config struct {
	Unwind        int   // max symbolic iterations of one branch instruction per frame
	MaxSteps      int64 // per path
	FeasTimeoutMs int
	AssertTimeout int
	MaxPaths      int
	MapOrder      string
	Verbose       int
	NoSlice       bool
	GenericFork   bool
}

func (it *Interp) bug(f string, a ...interface{}) *pathEnd {
	return &pathEnd{kind: "abort", reason: "engine: " + fmt.Sprintf(f, a...) + " at " + it.where()}
}

func (it *Interp) abort(f string, a ...interface{}) {
	panic(&pathEnd{kind: "abort", reason: fmt.Sprintf(f, a...) + " at " + it.where()})
}

func (it *Interp) where() string {
	var parts []string
	for i := len(it.stack) - 1; i >= 0 && len(parts) < 6; i-- {
		fr := it.stack[i]
		parts = append(parts, fr.fn.String())
	}
	return strings.Join(parts, " <- ")
}

func (it *Interp) posString(p token.Pos) string {
	if !p.IsValid() {
		return "?"
	}
	ps := it.L.Fset.Position(p)
	return fmt.Sprintf("%s:%d", ps.Filename, ps.Line)
}

func (it *Interp) curPos() string {
	for i := len(it.stack) - 1; i >= 0; i-- {
		fr := it.stack[i]
		if fr.callPos.IsValid() {
			return it.posString(fr.callPos)
		}
	}
	return "?"
}

func (it *Interp) goPanicStr(kind, msg string) {
	panic(&GoPanic{Val: IfaceV{T: types.Typ[types.String], V: StrV{S: msg}}, Msg: msg, Kind: kind, Pos: it.curPos() + " in " + it.where()})
}

func (it *Interp) goPanicNilDeref() {
	it.goPanicStr("nil-deref", "runtime error: invalid memory address or nil pointer dereference")
}

func (it *Interp) info(fn *ssa.Function) *fnInfo {
	if fi, ok := it.fninfo[fn]; ok {
		return fi
	}
	fi := &fnInfo{idx: map[ssa.Value]int{}, cons: map[*ssa.Const]Value{}}
	n := 0
	for _, p := range fn.Params {
		fi.idx[p] = n
		n++
	}
	for _, p := range fn.FreeVars {
		fi.idx[p] = n
		n++
	}
	for _, b := range fn.Blocks {
		for _, ins := range b.Instrs {
			if v, ok := ins.(ssa.Value); ok {
				fi.idx[v] = n
				n++
			}
		}
	}
	fi.n = n
	it.fninfo[fn] = fi
	return fi
}

func (it *Interp) constValue(c *ssa.Const) Value {
	t := c.Type()
	if c.Value == nil {
		return it.zero(t)
	}
	if w, _, ok := intWidth(t); ok {
		v, exact := constant.Uint64Val(constant.ToInt(c.Value))
		if exact {
			return it.C.BVU(v, w)
		}
		iv, _ := constant.Int64Val(constant.ToInt(c.Value))
		return it.C.BVI(iv, w)
	}
	switch u := t.Underlying().(type) {
	case *types.Basic:
		switch {
		case u.Info()&types.IsBoolean != 0:
			return it.C.BoolConst(constant.BoolVal(c.Value))
		case u.Info()&types.IsString != 0:
			return StrV{S: constant.StringVal(c.Value)}
		case u.Info()&types.IsFloat != 0:
			f, _ := constant.Float64Val(c.Value)
			return FloatV(f)
		}
	case *types.Interface:
		return IfaceV{}
	}
	panic(it.bug("const of type %v", t))
}

func (it *Interp) get(fr *frame, v ssa.Value) Value {
	switch x := v.(type) {
	case *ssa.Const:
		if cv, ok := fr.info.cons[x]; ok {
			return deepCopy(cv)
		}
		cv := it.constValue(x)
		fr.info.cons[x] = cv
		return deepCopy(cv)
	case *ssa.Global:
		return PtrV{O: it.globalObj(x)}
	case *ssa.Function:
		return &FuncV{Fn: x}
	case *ssa.Builtin:
		return &FuncV{Intr: &Intrinsic{Name: "builtin:" + x.Name(), Builtin: x}}
	}
	i, ok := fr.info.idx[v]
	if !ok {
		panic(it.bug("unknown ssa value %v (%T)", v, v))
	}
	return fr.locals[i]
}

func (it *Interp) set(fr *frame, v ssa.Value, val Value) {
	fr.locals[fr.info.idx[v]] = val
}

func (it *Interp) globalObj(g *ssa.Global) *Obj {
	if o, ok := it.globals[g]; ok {
		return o
	}
	// make sure the package is initialised (which may create the object)
	it.ensureInit(g.Pkg)
	if o, ok := it.globals[g]; ok {
		return o
	}
	it.inInit++
	o := it.newObj(it.zero(g.Type().(*types.Pointer).Elem()), "global "+g.String())
	it.inInit--
	it.globals[g] = o
	return o
}

func (it *Interp) ensureInit(pkg *ssa.Package) {
	if pkg == nil || it.pkgInit[pkg] != 0 {
		return
	}
	it.pkgInit[pkg] = 1
	// allocate all globals first
	it.inInit++
	defer func() { it.inInit-- }()
	for _, m := range pkg.Members {
		if g, ok := m.(*ssa.Global); ok {
			if _, ok := it.globals[g]; !ok {
				it.globals[g] = it.newObj(it.zero(g.Type().(*types.Pointer).Elem()), "global "+g.String())
			}
		}
	}
	initFn := pkg.Func("init")
	if initFn != nil && !it.skipInit(pkg) {
		it.L.buildPackage(pkg)
	}
	if initFn != nil && initFn.Blocks != nil && !it.skipInit(pkg) {
		saveStack := it.stack
		saveP := it.P
		func() {
			defer func() {
				if r := recover(); r != nil {
					it.stack = saveStack
					if pe, ok := r.(*pathEnd); ok && it.initLenient(pkg) {
						if it.Cfg.Verbose > 1 {
							fmt.Printf("note: init of %s incomplete: %s\n", pkg.Pkg.Path(), pe.reason)
						}
						return
					}
					if gp, ok := r.(*GoPanic); ok {
						panic(&pathEnd{kind: "abort", reason: fmt.Sprintf("panic in init of %s: %s at %s", pkg.Pkg.Path(), gp.Msg, gp.Pos)})
					}
					panic(r)
				}
			}()
			it.callSSA(initFn, nil, nil)
		}()
		it.P = saveP
		if it.Cfg.Verbose > 2 {
			fmt.Printf("note: init of %s done\n", pkg.Pkg.Path())
		}
	} else if it.Cfg.Verbose > 2 {
		fmt.Printf("note: init of %s skipped (fn=%v)\n", pkg.Pkg.Path(), initFn != nil)
	}
	it.pkgInit[pkg] = 2
}

// callValue calls a function value.
func (it *Interp) callValue(f *FuncV, args []Value, pos token.Pos) Value {
	if f == nil {
		it.goPanicStr("nil-deref", "call of nil function")
	}
	if f.Intr != nil {
		if f.HasRv {
			args = append([]Value{f.Recv}, args...)
		}
		if f.Intr.Builtin != nil {
			return it.callBuiltin(f.Intr.Builtin, args, nil)
		}
		return f.Intr.Fn(it, f.Fn, args)
	}
	return it.callFn(f.Fn, args, f.Env, pos)
}

// callFn calls an ssa function, dispatching to intrinsics.
func (it *Interp) callFn(fn *ssa.Function, args []Value, env []Value, pos token.Pos) Value {
	if in := it.lookupIntrinsic(fn); in != nil {
		return in.Fn(it, fn, args)
	}
	if it.inInit > 0 && fn.Name() == "init" && fn.Synthetic != "" && fn.Signature.Recv() == nil {
		return nil // imported packages are initialised lazily
	}
	if it.inInit > 0 {
		if p := fn.Package(); p != nil && initOpaquePkgs[p.Pkg.Path()] {
			return it.opaqueResult(fn.Signature, "init-time call of "+fn.String())
		}
	}
	it.L.ensureBuilt(fn)
	if fn.Blocks == nil {
		if it.inInit > 0 {
			return it.opaqueResult(fn.Signature, "init-time call of body-less "+fn.String())
		}
		it.abort("call of function without body: %s", fn.String())
	}
	if why := it.L.denied(fn); why != "" {
		if it.inInit > 0 {
			return it.opaqueResult(fn.Signature, "init-time call of "+fn.String())
		}
		if pk := fn.Package(); pk != nil {
			switch pk.Pkg.Path() {
			case "math/rand", "math/rand/v2", "crypto/rand", "os":
				if ok, _ := it.M.extra["allow.random"].(bool); !ok {
					it.nondetSource(fn.String())
				}
			}
		}
		it.abort("unmodelled callee %s (%s)", fn.String(), why)
	}
	return it.callSSA(fn, args, env)
}

func (it *Interp) callSSA(fn *ssa.Function, args []Value, env []Value) (ret Value) {
	if len(it.stack) > 400 {
		it.abort("interpreter stack overflow")
	}
	fi := it.info(fn)
	fr := &frame{fn: fn, info: fi, locals: make([]Value, fi.n), env: env}
	if len(args) != len(fn.Params) {
		panic(it.bug("call %s: %d args for %d params", fn.String(), len(args), len(fn.Params)))
	}
	for i, a := range args {
		fr.locals[i] = a
	}
	for i, e := range env {
		fr.locals[len(fn.Params)+i] = e
	}
	it.stack = append(it.stack, fr)
	depth := len(it.stack)
	if it.FuncsSeen != nil && it.inInit == 0 {
		it.FuncsSeen[fn.String()] = true
	}
	defer func() {
		if r := recover(); r != nil {
			gp, ok := r.(*GoPanic)
			if !ok {
				panic(r)
			}
			it.stack = it.stack[:depth]
			fr.panicv = gp
			it.runDefers(fr)
			if fr.panicv != nil {
				it.stack = it.stack[:depth-1]
				panic(fr.panicv)
			}
			// recovered
			if fn.Recover != nil {
				fr.block = fn.Recover
				ret = it.runFrame(fr)
			} else {
				ret = it.zeroResults(fn)
			}
		}
		it.stack = it.stack[:depth-1]
	}()
	fr.block = fn.Blocks[0]
	return it.runFrame(fr)
}

func (it *Interp) zeroResults(fn *ssa.Function) Value {
	res := fn.Signature.Results()
	switch res.Len() {
	case 0:
		return nil
	case 1:
		return it.zero(res.At(0).Type())
	}
	return it.zero(res)
}

func (it *Interp) runDefers(fr *frame) {
	for len(fr.defers) > 0 {
		d := fr.defers[len(fr.defers)-1]
		fr.defers = fr.defers[:len(fr.defers)-1]
		if fr.panicv != nil {
			it.deferRun = append(it.deferRun, fr)
		}
		func() {
			n := len(it.deferRun)
			defer func() {
				if r := recover(); r != nil {
					if gp, ok := r.(*GoPanic); ok {
						// a panic inside a deferred call replaces the current one
						if fr.panicv != nil {
							it.deferRun = it.deferRun[:n-1]
						}
						fr.panicv = gp
						it.runDefers(fr)
						if fr.panicv != nil {
							panic(fr.panicv)
						}
						return
					}
					panic(r)
				}
			}()
			wasPanicking := fr.panicv != nil
			if d.builtin != nil {
				it.callBuiltin(d.builtin, d.args, nil)
			} else {
				it.callValue(d.fn, d.args, token.NoPos)
			}
			if wasPanicking {
				it.deferRun = it.deferRun[:n-1]
			}
		}()
	}
}

func (it *Interp) runFrame(fr *frame) Value {
	for {
		blk := fr.block
		var next *ssa.BasicBlock
		done := false
		for _, ins := range blk.Instrs {
			it.steps++
			if ps := ins.Pos(); ps.IsValid() {
				fr.callPos = ps
			}
			if it.steps > it.Cfg.MaxSteps {
				it.abort("step budget exceeded (%d)", it.Cfg.MaxSteps)
			}
			switch x := ins.(type) {
			case *ssa.Phi:
				// handled below in bulk when entering the block
				continue
			case *ssa.Jump:
				next = blk.Succs[0]
			case *ssa.If:
				cond, isTerm := it.get(fr, x.Cond).(*smt.Term)
				if !isTerm {
					it.abort("branch on a non-boolean engine value %T in %s", it.get(fr, x.Cond), fr.fn.String())
				}
				var taken bool
				if cond.IsConst() {
					taken = cond.IsTrue()
				} else {
					if fr.symIfCnt == nil {
						fr.symIfCnt = map[ssa.Instruction]int{}
					}
					fr.symIfCnt[x]++
					if fr.symIfCnt[x] > it.Cfg.Unwind {
						it.abort("unwinding bound %d exceeded at %s", it.Cfg.Unwind, it.posString(x.Cond.Pos()))
					}
					taken = it.Branch(cond)
				}
				if taken {
					next = blk.Succs[0]
				} else {
					next = blk.Succs[1]
				}
			case *ssa.Return:
				switch len(x.Results) {
				case 0:
					fr.result = nil
				case 1:
					fr.result = it.get(fr, x.Results[0])
				default:
					tv := make(TupleV, len(x.Results))
					for i, r := range x.Results {
						tv[i] = it.get(fr, r)
					}
					fr.result = tv
				}
				done = true
			case *ssa.Panic:
				v := it.get(fr, x.X)
				panic(&GoPanic{Val: v, Msg: it.panicMsg(v), Kind: "explicit", Pos: it.posString(x.Pos()) + " in " + it.where()})
			default:
				if it.inInit > 0 && (fr.fn.Name() == "init" || strings.HasPrefix(fr.fn.Name(), "init#")) && fr.fn.Signature.Recv() == nil {
					// only the initialiser's own statements are lenient: a failing call becomes opaque as a whole
					it.execLenient(fr, ins)
				} else {
					it.exec(fr, ins)
				}
			}
			if next != nil || done {
				break
			}
		}
		if done {
			return fr.result
		}
		if next == nil {
			panic(it.bug("block without terminator in %s", fr.fn.String()))
		}
		// phis of next block evaluated simultaneously w.r.t. edge blk->next
		if len(next.Instrs) > 0 {
			if _, ok := next.Instrs[0].(*ssa.Phi); ok {
				predIdx := -1
				for i, p := range next.Preds {
					if p == blk {
						predIdx = i
						break
					}
				}
				var vals []Value
				var phis []*ssa.Phi
				for _, ins := range next.Instrs {
					ph, ok := ins.(*ssa.Phi)
					if !ok {
						break
					}
					phis = append(phis, ph)
					vals = append(vals, it.get(fr, ph.Edges[predIdx]))
				}
				for i, ph := range phis {
					it.set(fr, ph, vals[i])
				}
			}
		}
		fr.prev = blk
		fr.block = next
	}
}

func (it *Interp) panicMsg(v Value) string {
	if iv, ok := v.(IfaceV); ok {
		if s, ok := iv.V.(StrV); ok && s.Concrete() {
			return s.S
		}
		if iv.T != nil {
			// try error values with a concrete description
			return "panic(" + iv.T.String() + ") " + it.errorText(iv)
		}
	}
	return "panic"
}

// exec executes a non-control instruction.
func (it *Interp) exec(fr *frame, ins ssa.Instruction) {
	c := it.C
	switch x := ins.(type) {
	case *ssa.DebugRef:
	case *ssa.Alloc:
		o := it.newObj(it.zero(x.Type().(*types.Pointer).Elem()), "alloc")
		it.set(fr, x, PtrV{O: o})
	case *ssa.UnOp:
		it.set(fr, x, it.unop(fr, x))
	case *ssa.BinOp:
		a, b := it.get(fr, x.X), it.get(fr, x.Y)
		it.set(fr, x, it.fixedTerm(it.binop(x.Op, a, b, x.X.Type(), x.Y.Type())))
	case *ssa.Store:
		p := it.get(fr, x.Addr).(PtrV)
		it.store(p, it.get(fr, x.Val))
	case *ssa.FieldAddr:
		p, ok := it.get(fr, x.X).(PtrV)
		if !ok {
			it.abort("field access on %T", it.get(fr, x.X))
		}
		if p.O == nil {
			it.goPanicNilDeref()
		}
		it.set(fr, x, PtrV{O: p.O, Path: extendPath(p.Path, x.Field)})
	case *ssa.Field:
		s, ok := it.get(fr, x.X).(*StructV)
		if !ok {
			it.abort("field read on %T", it.get(fr, x.X))
		}
		it.set(fr, x, deepCopy(s.F[x.Field]))
	case *ssa.IndexAddr:
		base := it.forceLazy(it.get(fr, x.X))
		idx := it.get(fr, x.Index).(*smt.Term)
		switch b := base.(type) {
		case SliceV:
			i := it.concreteIndex(idx, b.Len, x.Index.Type())
			it.set(fr, x, PtrV{O: b.O, Path: []int{b.Off + i}})
		case PtrV:
			if b.O == nil {
				it.goPanicNilDeref()
			}
			n := int(x.X.Type().Underlying().(*types.Pointer).Elem().Underlying().(*types.Array).Len())
			i := it.concreteIndex(idx, n, x.Index.Type())
			it.set(fr, x, PtrV{O: b.O, Path: extendPath(b.Path, i)})
		default:
			it.abort("IndexAddr on %T", base)
		}
	case *ssa.Index:
		base := it.get(fr, x.X)
		idx := it.get(fr, x.Index).(*smt.Term)
		switch b := base.(type) {
		case *ArrayV:
			it.set(fr, x, it.indexValues(b.E, idx, x.Index.Type()))
		case StrV:
			bs := it.strBytes(b)
			vals := make([]Value, len(bs))
			for i, t := range bs {
				vals[i] = t
			}
			it.set(fr, x, it.indexValues(vals, idx, x.Index.Type()))
		default:
			it.abort("Index on %T", base)
		}
	case *ssa.Slice:
		it.set(fr, x, it.sliceOp(fr, x))
	case *ssa.MakeSlice:
		ln := it.concreteInt(it.get(fr, x.Len).(*smt.Term), "make len")
		cp := it.concreteInt(it.get(fr, x.Cap).(*smt.Term), "make cap")
		if ln < 0 || cp < ln {
			it.goPanicStr("makeslice", "runtime error: makeslice: len out of range")
		}
		if cp > 1<<22 {
			it.abort("make of huge slice (%d)", cp)
		}
		et := x.Type().Underlying().(*types.Slice).Elem()
		arr := &ArrayV{E: make([]Value, cp)}
		z := it.zero(et)
		for i := range arr.E {
			arr.E[i] = deepCopy(z)
		}
		it.set(fr, x, SliceV{O: it.newObj(arr, "makeslice"), Len: ln, Cap: cp})
	case *ssa.MakeMap:
		it.nobj++
		it.set(fr, x, &MapObj{ID: it.nobj})
	case *ssa.MakeChan:
		n := it.concreteInt(it.get(fr, x.Size).(*smt.Term), "chan size")
		it.nobj++
		it.set(fr, x, &ChanObj{Cap: n, ID: it.nobj})
	case *ssa.MakeInterface:
		v := it.get(fr, x.X)
		it.set(fr, x, IfaceV{T: x.X.Type(), V: v})
	case *ssa.MakeClosure:
		env := make([]Value, len(x.Bindings))
		for i, b := range x.Bindings {
			env[i] = it.get(fr, b)
		}
		it.set(fr, x, &FuncV{Fn: x.Fn.(*ssa.Function), Env: env})
	case *ssa.ChangeType:
		it.set(fr, x, it.get(fr, x.X))
	case *ssa.ChangeInterface:
		it.set(fr, x, it.get(fr, x.X))
	case *ssa.Convert:
		it.set(fr, x, it.convert(it.get(fr, x.X), x.X.Type(), x.Type()))
	case *ssa.MultiConvert:
		it.set(fr, x, it.convert(it.get(fr, x.X), x.X.Type(), x.Type()))
	case *ssa.SliceToArrayPointer:
		s := it.get(fr, x.X).(SliceV)
		n := int(x.Type().Underlying().(*types.Pointer).Elem().Underlying().(*types.Array).Len())
		if s.Len < n {
			it.goPanicStr("index", "runtime error: cannot convert slice to array pointer: length too short")
		}
		if s.O == nil {
			it.set(fr, x, PtrV{})
		} else if s.Off == 0 && len(s.O.V.(*ArrayV).E) == n {
			it.set(fr, x, PtrV{O: s.O})
		} else {
			it.abort("SliceToArrayPointer into the middle of an array")
		}
	case *ssa.Extract:
		t := it.get(fr, x.Tuple).(TupleV)
		it.set(fr, x, t[x.Index])
	case *ssa.TypeAssert:
		it.set(fr, x, it.typeAssert(fr, x))
	case *ssa.Call:
		it.set(fr, x, it.doCall(fr, &x.Call, x.Pos()))
	case *ssa.Defer:
		d := it.prepareDefer(fr, &x.Call)
		fr.defers = append(fr.defers, d)
	case *ssa.RunDefers:
		it.runDefers(fr)
	case *ssa.Go:
		it.execGo(fr, x)
	case *ssa.MapUpdate:
		m := it.get(fr, x.Map)
		it.mapUpdate(m, it.get(fr, x.Key), it.get(fr, x.Value))
	case *ssa.Lookup:
		it.set(fr, x, it.lookup(fr, x))
	case *ssa.Range:
		it.set(fr, x, it.makeRange(it.get(fr, x.X)))
	case *ssa.Next:
		it.set(fr, x, it.rangeNext(it.get(fr, x.Iter).(*rangeIter), x))
	case *ssa.Send:
		it.chanSend(it.get(fr, x.Chan), it.get(fr, x.X))
	case *ssa.Select:
		it.set(fr, x, it.selectOp(fr, x))
	default:
		_ = c
		it.abort("unsupported instruction %T", ins)
	}
}

// concreteInt forces a term to a concrete int, forking over feasible values when symbolic.
func (it *Interp) concreteInt(t *smt.Term, what string) int {
	if t.IsConst() {
		return int(t.SignedVal().Int64())
	}
	// enumerate small values by forking
	for k := 0; k <= it.Cfg.Unwind+64; k++ {
		if it.Branch(it.C.Eq(t, it.C.BVI(int64(k), t.Sort.W))) {
			return k
		}
	}
	it.abort("symbolic %s could not be concretised", what)
	return 0
}

// concreteIndex resolves an index (forking when symbolic) and performs the bounds check.
func (it *Interp) concreteIndex(idx *smt.Term, n int, t types.Type) int {
	c := it.C
	if idx.IsConst() {
		v := idx.SignedVal()
		if _, signed, _ := intWidth(t); !signed {
			v = idx.Val
		}
		if v.Sign() < 0 || v.Cmp(big.NewInt(int64(n))) >= 0 {
			it.goPanicStr("index", fmt.Sprintf("runtime error: index out of range [%s] with length %d", v.String(), n))
		}
		return int(v.Int64())
	}
	w := idx.Sort.W
	inb := c.BVUlt(idx, c.BVU(uint64(n), w)) // negative signed values are huge unsigned
	if !it.Branch(inb) {
		it.goPanicStr("index", fmt.Sprintf("runtime error: index out of range [symbolic] with length %d", n))
	}
	for k := 0; k < n-1; k++ {
		if it.Branch(c.Eq(idx, c.BVU(uint64(k), w))) {
			return k
		}
	}
	return n - 1
}

// indexValues reads vals[idx]; scalar elements become an ITE chain.
func (it *Interp) indexValues(vals []Value, idx *smt.Term, t types.Type) Value {
	c := it.C
	if idx.IsConst() {
		i := it.concreteIndex(idx, len(vals), t)
		return deepCopy(vals[i])
	}
	scalar := len(vals) > 0
	for _, v := range vals {
		if _, ok := v.(*smt.Term); !ok {
			scalar = false
			break
		}
	}
	if !scalar || len(vals) > 64 {
		i := it.concreteIndex(idx, len(vals), t)
		return deepCopy(vals[i])
	}
	w := idx.Sort.W
	inb := c.BVUlt(idx, c.BVU(uint64(len(vals)), w))
	if !it.Branch(inb) {
		it.goPanicStr("index", "runtime error: index out of range [symbolic]")
	}
	r := vals[len(vals)-1].(*smt.Term)
	for k := len(vals) - 2; k >= 0; k-- {
		r = c.Ite(c.Eq(idx, c.BVU(uint64(k), w)), vals[k].(*smt.Term), r)
	}
	return r
}

func (it *Interp) unop(fr *frame, x *ssa.UnOp) Value {
	c := it.C
	v := it.get(fr, x.X)
	switch x.Op {
	case token.MUL: // load
		p, ok := v.(PtrV)
		if !ok {
			if lv, ok2 := it.modelLoad(v); ok2 {
				return lv
			}
			it.abort("load through %T", v)
		}
		return it.load(p)
	case token.NOT:
		return c.Not(v.(*smt.Term))
	case token.SUB:
		switch t := v.(type) {
		case *smt.Term:
			return c.BVNeg(t)
		case FloatV:
			return -t
		}
	case token.XOR:
		return c.BVNot(v.(*smt.Term))
	case token.ARROW:
		return it.chanRecv(v, x.CommaOk, x.X.Type())
	}
	it.abort("unsupported unop %v on %T", x.Op, v)
	return nil
}

func (it *Interp) binop(op token.Token, a, b Value, ta, tb types.Type) Value {
	c := it.C
	switch op {
	case token.EQL:
		return it.eqTerm(a, b)
	case token.NEQ:
		return c.Not(it.eqTerm(a, b))
	}
	switch x := a.(type) {
	case *smt.Term:
		y := b.(*smt.Term)
		if x.Sort.K == smt.KBool {
			switch op {
			case token.AND, token.LAND:
				return c.And(x, y)
			case token.OR, token.LOR:
				return c.Or(x, y)
			}
			it.abort("bool binop %v", op)
		}
		_, signed, _ := intWidth(ta)
		w := x.Sort.W
		if r := it.bitlenCmp(op, x, y); r != nil {
			return r
		}
		switch op {
		case token.ADD:
			return c.BVAdd(x, y)
		case token.SUB:
			return c.BVSub(x, y)
		case token.MUL:
			return c.BVMul(x, y)
		case token.QUO, token.REM:
			zero := c.BVU(0, w)
			if it.Branch(c.Eq(y, zero)) {
				it.goPanicStr("div0", "runtime error: integer divide by zero")
			}
			if r := it.constDiv(op, signed, x, y); r != nil { // opt-in (params.exact_const_div), see divconst.go
				return r
			}
			if it.hcfg != nil && it.hcfg.cur.AbstractDiv && !y.IsConst() && !x.IsConst() {
				return it.abstractDiv(op, signed, x, y)
			}
			if signed {
				if op == token.QUO {
					return c.BVSDiv(x, y)
				}
				return c.BVSRem(x, y)
			}
			if it.hcfg != nil && it.hcfg.cur.AbstractURem && !y.IsConst() && op == token.REM {
				return it.abstractURem(x, y)
			}
			if op == token.QUO {
				return c.BVUDiv(x, y)
			}
			return c.BVURem(x, y)
		case token.AND:
			return c.BVAnd(x, y)
		case token.OR:
			return c.BVOr(x, y)
		case token.XOR:
			return c.BVXor(x, y)
		case token.AND_NOT:
			return c.BVAnd(x, c.BVNot(y))
		case token.SHL, token.SHR:
			// shift count may have a different width/signedness
			_, ysigned, _ := intWidth(tb)
			if ysigned {
				if it.Branch(c.BVSlt(y, c.BVU(0, y.Sort.W))) {
					it.goPanicStr("shift", "runtime error: negative shift amount")
				}
			}
			var amt *smt.Term
			if y.Sort.W < w {
				amt = c.Zext(y, w)
			} else if y.Sort.W > w {
				// saturate: if y >= w then w else low bits
				big := c.BVUle(c.BVU(uint64(w), y.Sort.W), y)
				amt = c.Ite(big, c.BVU(uint64(w), w), c.Extract(y, w-1, 0))
			} else {
				amt = y
			}
			if op == token.SHL {
				return c.BVShl(x, amt)
			}
			if signed {
				return c.BVAshr(x, amt)
			}
			return c.BVLshr(x, amt)
		case token.LSS:
			if signed {
				return c.BVSlt(x, y)
			}
			return c.BVUlt(x, y)
		case token.LEQ:
			if signed {
				return c.BVSle(x, y)
			}
			return c.BVUle(x, y)
		case token.GTR:
			if signed {
				return c.BVSlt(y, x)
			}
			return c.BVUlt(y, x)
		case token.GEQ:
			if signed {
				return c.BVSle(y, x)
			}
			return c.BVUle(y, x)
		}
	case FloatV:
		y := b.(FloatV)
		switch op {
		case token.ADD:
			return x + y
		case token.SUB:
			return x - y
		case token.MUL:
			return x * y
		case token.QUO:
			return x / y
		case token.LSS:
			return c.BoolConst(x < y)
		case token.LEQ:
			return c.BoolConst(x <= y)
		case token.GTR:
			return c.BoolConst(x > y)
		case token.GEQ:
			return c.BoolConst(x >= y)
		}
	case StrV:
		y := b.(StrV)
		switch op {
		case token.ADD:
			if x.Concrete() && y.Concrete() {
				return StrV{S: x.S + y.S}
			}
			return it.mkStr(append(append([]*smt.Term{}, it.strBytes(x)...), it.strBytes(y)...))
		case token.LSS, token.LEQ, token.GTR, token.GEQ:
			if x.Concrete() && y.Concrete() {
				switch op {
				case token.LSS:
					return c.BoolConst(x.S < y.S)
				case token.LEQ:
					return c.BoolConst(x.S <= y.S)
				case token.GTR:
					return c.BoolConst(x.S > y.S)
				default:
					return c.BoolConst(x.S >= y.S)
				}
			}
			lt := it.bytesLess(it.strBytes(x), it.strBytes(y))
			eq := it.eqTerm(x, y)
			switch op {
			case token.LSS:
				return lt
			case token.LEQ:
				return c.Or(lt, eq)
			case token.GTR:
				return c.Not(c.Or(lt, eq))
			default:
				return c.Not(lt)
			}
		}
	}
	it.abort("unsupported binop %v on %T", op, a)
	return nil
}

// bytesLess builds the term for lexicographic a < b.
func (it *Interp) bytesLess(a, b []*smt.Term) *smt.Term {
	c := it.C
	n := len(a)
	if len(b) < n {
		n = len(b)
	}
	// result if all common bytes equal:
	r := c.BoolConst(len(a) < len(b))
	a, b = it.coalesceBytes(a[:n], b[:n]) // bytes_runs.go: big-endian encoded words compare as one value
	n = len(a)
	for i := n - 1; i >= 0; i-- {
		r = c.Ite(c.Eq(a[i], b[i]), r, c.BVUlt(a[i], b[i]))
	}
	return r
}

func (it *Interp) convert(v Value, from, to types.Type) Value {
	c := it.C
	fu, tu := from.Underlying(), to.Underlying()
	if tw, _, ok := intWidth(tu); ok {
		switch x := v.(type) {
		case *smt.Term:
			_, fsigned, _ := intWidth(fu)
			fw := x.Sort.W
			switch {
			case tw == fw:
				return x
			case tw < fw:
				return c.Extract(x, tw-1, 0)
			case fsigned:
				return c.Sext(x, tw)
			default:
				return c.Zext(x, tw)
			}
		case FloatV:
			_, tsigned, _ := intWidth(tu)
			if tsigned {
				return c.BVI(int64(x), tw)
			}
			return c.BVU(uint64(x), tw)
		}
	}
	if tb, ok := tu.(*types.Basic); ok {
		switch {
		case tb.Info()&types.IsFloat != 0:
			switch x := v.(type) {
			case FloatV:
				if tb.Kind() == types.Float32 {
					return FloatV(float32(x))
				}
				return x
			case *smt.Term:
				if !x.IsConst() {
					it.abort("conversion of symbolic integer to float")
				}
				_, fsigned, _ := intWidth(fu)
				if fsigned {
					return FloatV(float64(x.SignedVal().Int64()))
				}
				return FloatV(float64(x.Val.Uint64()))
			}
		case tb.Info()&types.IsString != 0:
			switch x := v.(type) {
			case StrV:
				return x
			case SliceV:
				// []byte or []rune -> string
				et := fu.(*types.Slice).Elem().Underlying().(*types.Basic)
				if et.Kind() == types.Uint8 {
					return it.mkStr(it.bytesOf(x))
				}
				var sb strings.Builder
				for _, e := range sliceElems(x) {
					t := e.(*smt.Term)
					if !t.IsConst() {
						it.abort("[]rune -> string with symbolic rune")
					}
					sb.WriteRune(rune(t.SignedVal().Int64()))
				}
				return StrV{S: sb.String()}
			case *smt.Term:
				if !x.IsConst() {
					it.abort("string(rune) with symbolic rune")
				}
				return StrV{S: string(rune(x.SignedVal().Int64()))}
			case *Blob:
				it.abort("string(blob)")
			}
		case tb.Kind() == types.UnsafePointer:
			it.abort("conversion to unsafe.Pointer")
		}
	}
	if ts, ok := tu.(*types.Slice); ok {
		if s, ok := v.(StrV); ok {
			et := ts.Elem().Underlying().(*types.Basic)
			if et.Kind() == types.Uint8 {
				bs := it.strBytes(s)
				return it.mkByteSlice(append([]*smt.Term{}, bs...))
			}
			if !s.Concrete() {
				it.abort("[]rune(symbolic string)")
			}
			rs := []rune(s.S)
			arr := &ArrayV{E: make([]Value, len(rs))}
			for i, r := range rs {
				arr.E[i] = c.BVI(int64(r), 32)
			}
			return SliceV{O: it.newObj(arr, "runes"), Len: len(rs), Cap: len(rs)}
		}
		return v
	}
	if _, ok := tu.(*types.Pointer); ok {
		return v
	}
	it.abort("unsupported conversion %v -> %v (%T)", from, to, v)
	return nil
}

func (it *Interp) sliceOp(fr *frame, x *ssa.Slice) Value {
	base := it.forceLazy(it.get(fr, x.X))
	getIdx := func(v ssa.Value, def int) int {
		if v == nil {
			return def
		}
		return it.concreteInt(it.get(fr, v).(*smt.Term), "slice bound")
	}
	oob := func(lo, hi, max, cp int) {
		if lo < 0 || hi < lo || max < hi || max > cp {
			it.goPanicStr("index", fmt.Sprintf("runtime error: slice bounds out of range [%d:%d:%d] with capacity %d", lo, hi, max, cp))
		}
	}
	switch b := base.(type) {
	case SliceV:
		lo := getIdx(x.Low, 0)
		hi := getIdx(x.High, b.Len)
		max := getIdx(x.Max, b.Cap)
		oob(lo, hi, max, b.Cap)
		if b.O == nil {
			return SliceV{}
		}
		return SliceV{O: b.O, Off: b.Off + lo, Len: hi - lo, Cap: max - lo}
	case StrV:
		lo := getIdx(x.Low, 0)
		hi := getIdx(x.High, b.Len())
		oob(lo, hi, b.Len(), b.Len())
		if b.Concrete() {
			return StrV{S: b.S[lo:hi]}
		}
		return it.mkStr(b.B[lo:hi])
	case PtrV: // *array
		if b.O == nil {
			it.goPanicNilDeref()
		}
		arr := it.navigate(b).(*ArrayV)
		n := len(arr.E)
		lo := getIdx(x.Low, 0)
		hi := getIdx(x.High, n)
		max := getIdx(x.Max, n)
		oob(lo, hi, max, n)
		var o *Obj
		if len(b.Path) == 0 {
			o = b.O
		} else {
			// array nested inside another object: give it its own cell sharing the ArrayV node
			o = it.subObj(b)
		}
		return SliceV{O: o, Off: lo, Len: hi - lo, Cap: max - lo}
	case *Blob:
		it.abort("slicing a codec blob")
	}
	it.abort("Slice on %T", base)
	return nil
}

// navigate returns the (shared, not copied) node at p.
func (it *Interp) navigate(p PtrV) Value {
	v := p.O.V
	for _, i := range p.Path {
		switch x := v.(type) {
		case *StructV:
			v = x.F[i]
		case *ArrayV:
			v = x.E[i]
		}
	}
	return v
}

// subObj returns an Obj aliasing the array node at p (stable per (obj,path)).
func (it *Interp) subObj(p PtrV) *Obj {
	key := fmt.Sprintf("%d%v", p.O.ID, p.Path)
	if it.M.subObjs == nil {
		it.M.subObjs = map[string]*Obj{}
	}
	if o, ok := it.M.subObjs[key]; ok {
		return o
	}
	o := &Obj{V: it.navigate(p), ID: p.O.ID*1000 + len(it.M.subObjs) + 1, Frozen: p.O.Frozen, Tag: "subarray"}
	it.M.subObjs[key] = o
	return o
}

func (it *Interp) typeAssert(fr *frame, x *ssa.TypeAssert) Value {
	v := it.get(fr, x.X)
	iv, ok := v.(IfaceV)
	if !ok {
		if ov, isOp := v.(OpaqueV); isOp {
			it.abort("type assertion on opaque value (%s)", ov.Why)
		}
		panic(it.bug("type assert on %T", v))
	}
	okv := false
	var res Value
	if iv.T != nil {
		if types.IsInterface(x.AssertedType) {
			itf := x.AssertedType.Underlying().(*types.Interface)
			if it.implements(iv.T, itf) {
				okv = true
				res = iv
			}
		} else if types.Identical(iv.T, x.AssertedType) {
			okv = true
			res = iv.V
		}
	}
	if x.CommaOk {
		if !okv {
			res = it.zero(x.AssertedType)
		}
		return TupleV{res, it.C.BoolConst(okv)}
	}
	if !okv {
		dyn := "nil"
		if iv.T != nil {
			dyn = iv.T.String()
		}
		it.goPanicStr("type-assert", fmt.Sprintf("interface conversion: interface is %s, not %s", dyn, x.AssertedType.String()))
	}
	return res
}

func (it *Interp) implements(t types.Type, itf *types.Interface) bool {
	if itf.NumMethods() == 0 {
		return true
	}
	return types.Implements(t, itf)
}

// bitlenCmp rewrites comparisons of a symbolic big.Int.BitLen() against a constant into Int-theory bounds.
func (it *Interp) bitlenCmp(op token.Token, x, y *smt.Term) *smt.Term {
	isBL := func(t *smt.Term) bool { return t.Op == smt.OApp && t.Name == "bitlen!" }
	c := it.C
	if isBL(y) && x.IsConst() {
		// k op bitlen  ==  bitlen op' k
		switch op {
		case token.LSS:
			op = token.GTR
		case token.LEQ:
			op = token.GEQ
		case token.GTR:
			op = token.LSS
		case token.GEQ:
			op = token.LEQ
		default:
			return nil
		}
		x, y = y, x
	}
	if !isBL(x) || !y.IsConst() {
		if isBL(x) || isBL(y) {
			it.abort("unsupported use of symbolic BitLen()")
		}
		return nil
	}
	k := int(y.SignedVal().Int64())
	ax := c.Abs(x.Args[0])
	ge := func(n int) *smt.Term { // bitlen >= n  <=>  |v| >= 2^(n-1)
		if n <= 0 {
			return c.True
		}
		return c.Le(it.pow2(n-1), ax)
	}
	switch op {
	case token.GTR:
		return ge(k + 1)
	case token.GEQ:
		return ge(k)
	case token.LSS:
		return c.Not(ge(k))
	case token.LEQ:
		return c.Not(ge(k + 1))
	}
	it.abort("unsupported use of symbolic BitLen() (op %v)", op)
	return nil
}

// abstractURem replaces x % y (symbolic y) by a fresh value r constrained only by r < y, r <= x and
// (x < y => r = x). This over-approximates the remainder: obligations proved under it hold for the real
// remainder; a counterexample is re-checked with the exact definition before it is reported.
func (it *Interp) abstractURem(x, y *smt.Term) *smt.Term {
	c := it.C
	key := [2]int{x.ID, y.ID}
	if r, ok := it.P.uremMemo[key]; ok {
		return r
	}
	r := c.Var(fmt.Sprintf("urem!%d!%d", x.ID, y.ID), x.Sort)
	if it.P.uremMemo == nil {
		it.P.uremMemo = map[[2]int]*smt.Term{}
	}
	it.P.uremMemo[key] = r
	it.addPC(c.BVUlt(r, y))
	it.addPC(c.BVUle(r, x))
	it.addPC(c.Implies(c.BVUlt(x, y), c.Eq(r, x)))
	it.P.Exact = append(it.P.Exact, c.Eq(r, c.BVURem(x, y)))
	return r
}

// abstractDiv replaces x/y or x%y (both symbolic) by a fresh value with only the cheap consequences of the
// definition (sign and magnitude bounds for non-negative operands). This over-approximates the operation:
// obligations proved under it hold for the real operation; a counterexample is re-decided with the exact
// definition (Path.Exact) before it is reported. Identical operand pairs give the identical value.
func (it *Interp) abstractDiv(op token.Token, signed bool, x, y *smt.Term) *smt.Term {
	c := it.C
	kind := 0
	if op == token.REM {
		kind = 1
	}
	if signed {
		kind += 2
	}
	key := [2]int{x.ID*4 + kind, y.ID}
	if r, ok := it.P.uremMemo[key]; ok {
		return r
	}
	if it.P.uremMemo == nil {
		it.P.uremMemo = map[[2]int]*smt.Term{}
	}
	r := c.Var(fmt.Sprintf("div!%d!%d!%d", kind, x.ID, y.ID), x.Sort)
	it.P.uremMemo[key] = r
	zero := c.BVU(0, x.Sort.W)
	var exact *smt.Term
	switch {
	case signed && op == token.QUO:
		exact = c.BVSDiv(x, y)
		nonneg := c.And(c.BVSle(zero, x), c.BVSlt(zero, y))
		it.addPC(c.Implies(nonneg, c.And(c.BVSle(zero, r), c.BVSle(r, x))))
		it.addPC(c.Implies(c.And(nonneg, c.BVSlt(x, y)), c.Eq(r, zero)))
		it.addPC(c.Implies(c.And(nonneg, c.BVSle(y, x)), c.BVSlt(zero, r)))
		it.addPC(c.Implies(c.Eq(y, c.BVU(1, x.Sort.W)), c.Eq(r, x)))
	case signed:
		exact = c.BVSRem(x, y)
		nonneg := c.And(c.BVSle(zero, x), c.BVSlt(zero, y))
		it.addPC(c.Implies(nonneg, c.AndN(c.BVSle(zero, r), c.BVSlt(r, y), c.BVSle(r, x))))
	case op == token.QUO:
		exact = c.BVUDiv(x, y)
		it.addPC(c.BVUle(r, x))
		it.addPC(c.Implies(c.BVUlt(x, y), c.Eq(r, zero)))
		it.addPC(c.Implies(c.BVUle(y, x), c.BVUlt(zero, r)))
		it.addPC(c.Implies(c.Eq(y, c.BVU(1, x.Sort.W)), c.Eq(r, x)))
	default:
		exact = c.BVURem(x, y)
		it.addPC(c.BVUlt(r, y))
		it.addPC(c.BVUle(r, x))
		it.addPC(c.Implies(c.BVUlt(x, y), c.Eq(r, x)))
	}
	it.P.Exact = append(it.P.Exact, c.Eq(r, exact))
	return r
}

// execLenient runs one instruction of a package initialiser: an operation the engine cannot perform (opaque
// operand, unmodelled callee, nondeterministic source) yields an opaque value instead of ending the whole
// initialiser, so that the remaining package-level variables are still initialised. Opaque values abort any
// path that later tries to use them.
func (it *Interp) execLenient(fr *frame, ins ssa.Instruction) {
	depth := len(it.stack)
	defer func() {
		if r := recover(); r != nil {
			pe, ok := r.(*pathEnd)
			if !ok || pe.kind != "abort" {
				panic(r)
			}
			it.stack = it.stack[:depth]
			if it.Cfg.Verbose > 1 {
				fmt.Printf("note: init of %s: %s -> opaque (%s)\n", fr.fn.Pkg.Pkg.Path(), ins.String(), pe.reason)
			}
			if v, isVal := ins.(ssa.Value); isVal {
				if _, isCall := ins.(*ssa.Call); isCall {
					it.set(fr, v, it.opaqueResult(ins.(*ssa.Call).Call.Signature(), "init: "+pe.reason))
				} else {
					it.set(fr, v, OpaqueV{Why: "init: " + pe.reason})
				}
			}
		}
	}()
	it.exec(fr, ins)
}
