package sym

import (
	"go/constant"
	"go/types"
	"sort"

	"golang.org/x/tools/go/ssa"
)

// vsupport.StaticCallStrings(fn, callee): see harness/vsupport/api_static_symgo.go.
func (it *Interp) findFunc(name string) *ssa.Function {
	for _, p := range it.L.Prog.AllPackages() {
		for _, m := range p.Members {
			switch x := m.(type) {
			case *ssa.Function:
				if x.String() == name {
					return x
				}
			case *ssa.Type:
				for _, t := range []types.Type{x.Type(), types.NewPointer(x.Type())} {
					ms := it.L.Prog.MethodSets.MethodSet(t)
					for i := 0; i < ms.Len(); i++ {
						if f := it.L.Prog.MethodValue(ms.At(i)); f != nil && f.String() == name {
							return f
						}
					}
				}
			}
		}
	}
	return nil
}

func init() {
	Register(VS+"StaticCallStrings", func(it *Interp, _ *ssa.Function, a []Value) Value {
		fnName := concStr(it, a[0], "StaticCallStrings function")
		callee := concStr(it, a[1], "StaticCallStrings callee")
		fn := it.findFunc(fnName)
		if fn == nil {
			it.abort("StaticCallStrings: function %s not found in the loaded program", fnName)
		}
		it.L.ensureBuilt(fn)
		var out []string
		found := 0
		for _, b := range fn.Blocks {
			for _, ins := range b.Instrs {
				ci, ok := ins.(ssa.CallInstruction)
				if !ok {
					continue
				}
				sc := ci.Common().StaticCallee()
				if sc == nil || sc.String() != callee {
					continue
				}
				found++
				for _, arg := range ci.Common().Args {
					switch x := arg.(type) {
					case *ssa.Const:
						if x.Value != nil && x.Value.Kind() == constant.String {
							out = append(out, constant.StringVal(x.Value))
						}
					case *ssa.Slice: // variadic: slice of a fresh array filled by IndexAddr+Store
						alloc, ok := x.X.(*ssa.Alloc)
						if !ok {
							it.abort("StaticCallStrings: variadic argument is not a fresh array")
						}
						type ent struct {
							i int64
							s string
						}
						var es []ent
						for _, b2 := range fn.Blocks {
							for _, in2 := range b2.Instrs {
								st, ok := in2.(*ssa.Store)
								if !ok {
									continue
								}
								ia, ok := st.Addr.(*ssa.IndexAddr)
								if !ok || ia.X != alloc {
									continue
								}
								ic, ok1 := ia.Index.(*ssa.Const)
								vc, ok2 := st.Val.(*ssa.Const)
								if !ok1 || !ok2 || vc.Value == nil || vc.Value.Kind() != constant.String {
									it.abort("StaticCallStrings: non-constant argument of %s in %s", callee, fnName)
								}
								es = append(es, ent{ic.Int64(), constant.StringVal(vc.Value)})
							}
						}
						sort.Slice(es, func(i, j int) bool { return es[i].i < es[j].i })
						for _, e := range es {
							out = append(out, e.s)
						}
					default:
						it.abort("StaticCallStrings: non-constant argument of %s in %s", callee, fnName)
					}
				}
			}
		}
		if found != 1 {
			it.abort("StaticCallStrings: %d calls of %s in %s (want exactly 1)", found, callee, fnName)
		}
		arr := &ArrayV{E: make([]Value, len(out))}
		for i, s := range out {
			arr.E[i] = StrV{S: s}
		}
		return SliceV{O: it.newObj(arr, "static-strings"), Len: len(out), Cap: len(out)}
	})
}
