package sym

import "golang.org/x/tools/go/ssa"

// Interface-registry construction in package initialisers (`var ModuleCdc = codec.NewProtoCodec(
// codectypes.NewInterfaceRegistry())`, e.g. x/oracle/types, x/bandtss/types). The registry is reflection
// based and only serves Any packing / JSON; keeper harnesses use the model codec (venv.Codec), so the
// registry is an opaque value whose methods are ignored.
func init() {
	opaqueReg := func(it *Interp, fn *ssa.Function, a []Value) Value {
		return IfaceV{T: tyOpaque, V: OpaqueV{Why: "interface registry"}}
	}
	Register("github.com/cosmos/cosmos-sdk/codec/types.NewInterfaceRegistry", opaqueReg)
}
