package sym

import (
	"golang.org/x/tools/go/ssa"

	"symgo/smt"
)

// internal/bytealg.MakeNoZero (linkname into the runtime, used by bytes.Join / bytes.Repeat): a fresh byte
// slice of the given concrete length. The model zeroes it, which refines "uninitialised". Registered only
// if no other model file (a parallel branch adds one as models_bytealg.go) has done so already.
func init() {
	if _, ok := intrinsics["internal/bytealg.MakeNoZero"]; ok {
		return
	}
	Register("internal/bytealg.MakeNoZero", func(it *Interp, _ *ssa.Function, a []Value) Value {
		n, ok := a[0].(*smt.Term)
		if !ok || !n.IsConst() {
			it.abort("bytealg.MakeNoZero with symbolic length")
		}
		return it.mkByteSlice(it.concBytes(make([]byte, int(n.Uint64()))))
	})
}
