package sym

import (
	"go/types"
	"regexp"
	"sort"

	"golang.org/x/tools/go/ssa"
)

var harnessTypeName = regexp.MustCompile(`^(Verif|verif|c[0-9][0-9][A-Z_])`)

// vsupport.Implementors(pkgPath, name): whole-program query, see harness/vsupport/api_implementors_symgo.go.
func init() {
	Register(VS+"Implementors", func(it *Interp, _ *ssa.Function, a []Value) Value {
		pkg := concStr(it, a[0], "Implementors package")
		name := concStr(it, a[1], "Implementors interface name")
		nt := it.namedType(pkg, name)
		iface, ok := nt.Underlying().(*types.Interface)
		if !ok {
			it.abort("Implementors: %s.%s is not an interface", pkg, name)
		}
		var out []string
		for _, p := range it.L.Prog.AllPackages() {
			for _, m := range p.Members {
				tm, ok := m.(*ssa.Type)
				if !ok {
					continue
				}
				t := tm.Type()
				if _, isIface := t.Underlying().(*types.Interface); isIface {
					continue
				}
				if n, ok := t.(*types.Named); ok && n.TypeParams().Len() > 0 {
					continue
				}
				if harnessTypeName.MatchString(tm.Name()) {
					continue
				}
				if types.Implements(t, iface) || types.Implements(types.NewPointer(t), iface) {
					out = append(out, p.Pkg.Path()+"."+tm.Name())
				}
			}
		}
		sort.Strings(out)
		arr := &ArrayV{E: make([]Value, len(out))}
		for i, s := range out {
			arr.E[i] = StrV{S: s}
		}
		return SliceV{O: it.newObj(arr, "implementors"), Len: len(out), Cap: len(out)}
	})
}
