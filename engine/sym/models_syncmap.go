package sym

import (
	"fmt"

	"golang.org/x/tools/go/ssa"

	"symgo/smt"
)

// sync.Map: an association list per receiver (sequential semantics, like the sync.Mutex / atomic models; the
// goroutine model of this engine is sequentialised). Keys and values are interface values; key comparison is
// Go's interface equality (forks only when two keys are symbolic and of the same dynamic type).

func (it *Interp) syncMapOf(recv Value) *MapObj {
	p, ok := recv.(PtrV)
	if !ok || p.O == nil {
		it.goPanicNilDeref()
	}
	tbl, _ := it.M.extra["sync.Map"].(map[string]*MapObj)
	if tbl == nil {
		tbl = map[string]*MapObj{}
		it.M.extra["sync.Map"] = tbl
	}
	key := fmt.Sprintf("%d%v", p.O.ID, p.Path)
	m := tbl[key]
	if m == nil {
		it.nobj++
		m = &MapObj{ID: it.nobj}
		tbl[key] = m
	}
	return m
}

func (it *Interp) syncMapDelete(m *MapObj, i int) {
	m.Keys = append(m.Keys[:i:i], m.Keys[i+1:]...)
	m.Vals = append(m.Vals[:i:i], m.Vals[i+1:]...)
}

func init() {
	R := Register
	c := func(it *Interp) *smt.Ctx { return it.C }
	R("(*sync.Map).Load", func(it *Interp, _ *ssa.Function, a []Value) Value {
		m := it.syncMapOf(a[0])
		if i := it.mapFind(m, a[1]); i >= 0 {
			return TupleV{m.Vals[i], c(it).True}
		}
		return TupleV{IfaceV{}, c(it).False}
	})
	R("(*sync.Map).Store", func(it *Interp, _ *ssa.Function, a []Value) Value {
		it.mapUpdate(it.syncMapOf(a[0]), a[1], a[2])
		return nil
	})
	R("(*sync.Map).LoadOrStore", func(it *Interp, _ *ssa.Function, a []Value) Value {
		m := it.syncMapOf(a[0])
		if i := it.mapFind(m, a[1]); i >= 0 {
			return TupleV{m.Vals[i], c(it).True}
		}
		m.Keys = append(m.Keys, a[1])
		m.Vals = append(m.Vals, a[2])
		return TupleV{a[2], c(it).False}
	})
	R("(*sync.Map).LoadAndDelete", func(it *Interp, _ *ssa.Function, a []Value) Value {
		m := it.syncMapOf(a[0])
		if i := it.mapFind(m, a[1]); i >= 0 {
			v := m.Vals[i]
			it.syncMapDelete(m, i)
			return TupleV{v, c(it).True}
		}
		return TupleV{IfaceV{}, c(it).False}
	})
	R("(*sync.Map).Delete", func(it *Interp, _ *ssa.Function, a []Value) Value {
		m := it.syncMapOf(a[0])
		if i := it.mapFind(m, a[1]); i >= 0 {
			it.syncMapDelete(m, i)
		}
		return nil
	})
	R("(*sync.Map).Swap", func(it *Interp, _ *ssa.Function, a []Value) Value {
		m := it.syncMapOf(a[0])
		if i := it.mapFind(m, a[1]); i >= 0 {
			old := m.Vals[i]
			m.Vals[i] = a[2]
			return TupleV{old, c(it).True}
		}
		m.Keys = append(m.Keys, a[1])
		m.Vals = append(m.Vals, a[2])
		return TupleV{IfaceV{}, c(it).False}
	})
	R("(*sync.Map).Clear", func(it *Interp, _ *ssa.Function, a []Value) Value {
		m := it.syncMapOf(a[0])
		m.Keys, m.Vals = nil, nil
		return nil
	})
	// Range calls f on a snapshot of the entries (insertion order) and skips entries deleted meanwhile.
	R("(*sync.Map).Range", func(it *Interp, _ *ssa.Function, a []Value) Value {
		m := it.syncMapOf(a[0])
		f := a[1].(*FuncV)
		keys := append([]Value{}, m.Keys...)
		for _, k := range keys {
			i := -1
			for j, kk := range m.Keys {
				if sameKeyIdentity(kk, k) {
					i = j
					break
				}
			}
			if i < 0 {
				continue
			}
			r := it.callValue(f, []Value{k, m.Vals[i]}, 0).(*smt.Term)
			if !it.Branch(r) {
				break
			}
		}
		return nil
	})
}
