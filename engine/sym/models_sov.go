package sym

import (
	"math/big"

	"golang.org/x/tools/go/ssa"

	"symgo/smt"
)

// gogoproto's generated size helpers `sovXxx(x uint64) int { return (math_bits.Len64(x|1) + 6) / 7 }` (number of
// bytes of the unsigned varint of x). Run from source they go through the math/bits.Len64 model, which yields one
// path per BIT length (up to 64) although only the 10 BYTE lengths differ. This model computes the same function
// exactly with a binary search over the byte-length thresholds 2^(7k) (at most 4 decisions, at most 10 paths).
// sovModel is checked against the formula in models_sov_test.go.
var sovFuncs = []string{
	"github.com/cosmos/gogoproto/types.sovWrappers",
	"github.com/cosmos/gogoproto/types.sovTimestamp",
	"github.com/cometbft/cometbft/proto/tendermint/types.sovTypes",
	"github.com/cometbft/cometbft/proto/tendermint/types.sovCanonical",
	"github.com/cometbft/cometbft/proto/tendermint/version.sovTypes",
}

// sovConcrete is the varint byte length of a concrete value.
func sovConcrete(v uint64) int {
	n := 1
	for v >= 0x80 {
		v >>= 7
		n++
	}
	return n
}

func init() {
	for _, name := range sovFuncs {
		Register(name, func(it *Interp, fn *ssa.Function, a []Value) Value {
			c := it.C
			x := a[0].(*smt.Term)
			if x.IsConst() {
				return c.BVI(int64(sovConcrete(x.Uint64())), 64)
			}
			// result n in 1..10 with 2^(7(n-1)) <= x < 2^(7n)  (n = 1 also for x = 0)
			lo, hi := 1, 10
			for lo < hi {
				mid := (lo + hi + 1) / 2
				if it.Branch(c.BVUle(c.BVConst(new(big.Int).Lsh(big.NewInt(1), uint(7*(mid-1))), 64), x)) {
					lo = mid
				} else {
					hi = mid - 1
				}
			}
			return c.BVI(int64(lo), 64)
		})
	}
}
