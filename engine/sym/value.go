// Package sym is a forking symbolic interpreter of go/ssa.
package sym

import (
	"fmt"
	"go/types"
	"math/big"
	"strings"

	"golang.org/x/tools/go/ssa"

	"symgo/smt"
)

// Value is one of: *smt.Term (BV ints / Bool), FloatV, *StructV, *ArrayV, PtrV,
// SliceV, StrV, *MapObj, IfaceV, *FuncV, TupleV, BigV, OpaqueV, *Blob, *ChanObj,
// or a model-specific value (see models_*.go).
type Value interface{}

type FloatV float64

type StructV struct{ F []Value }
type ArrayV struct{ E []Value }

// Obj is a heap cell (an Alloc, a global, the backing array of a slice...).
type Obj struct {
	V      Value
	ID     int
	Frozen bool // created during package initialisation; shared across paths
	Tag    string
}

type PtrV struct {
	O    *Obj
	Path []int
}

func (p PtrV) IsNil() bool { return p.O == nil }

type SliceV struct {
	O             *Obj // holds *ArrayV
	Off, Len, Cap int
}

func (s SliceV) IsNil() bool { return s.O == nil }

// StrV is a Go string: concrete (B == nil) or a vector of symbolic bytes.
type StrV struct {
	S string
	B []*smt.Term
}

type MapObj struct {
	Keys []Value
	Vals []Value
	ID   int
}

type IfaceV struct {
	T types.Type // dynamic type; nil => nil interface
	V Value
}

func (i IfaceV) IsNil() bool { return i.T == nil }

type FuncV struct {
	Fn    *ssa.Function
	Env   []Value
	Intr  *Intrinsic // builtin / intrinsic closure
	Recv  Value      // bound receiver for Intr closures
	HasRv bool
}

type TupleV []Value

// BigV is the value of a math/big.Int struct: an SMT Int term.
type BigV struct{ T *smt.Term }

// OpaqueV is the result of an ignored call (events, logging, formatting).
type OpaqueV struct{ Why string }

// Blob is a codec-marshalled message masquerading as []byte.
type Blob struct {
	T types.Type // the message struct type (not pointer)
	V Value      // deep copy
}

type ChanObj struct {
	Buf []Value
	Cap int
	ID  int
}

// ---------- helpers ----------

func deepCopy(v Value) Value {
	switch x := v.(type) {
	case *StructV:
		n := &StructV{F: make([]Value, len(x.F))}
		for i, f := range x.F {
			n.F[i] = deepCopy(f)
		}
		return n
	case *ArrayV:
		n := &ArrayV{E: make([]Value, len(x.E))}
		for i, f := range x.E {
			n.E[i] = deepCopy(f)
		}
		return n
	case TupleV:
		n := make(TupleV, len(x))
		for i, f := range x {
			n[i] = deepCopy(f)
		}
		return n
	}
	return v
}

func (it *Interp) newObj(v Value, tag string) *Obj {
	it.nobj++
	return &Obj{V: v, ID: it.nobj, Frozen: it.inInit > 0, Tag: tag}
}

func (it *Interp) load(p PtrV) Value {
	if p.O == nil {
		it.goPanicNilDeref()
	}
	v := p.O.V
	for _, i := range p.Path {
		switch x := v.(type) {
		case *StructV:
			v = x.F[i]
		case *ArrayV:
			v = x.E[i]
		default:
			panic(it.bug("load: bad path through %T", v))
		}
	}
	return deepCopy(v)
}

func (it *Interp) store(p PtrV, val Value) {
	if p.O == nil {
		it.goPanicNilDeref()
	}
	it.touch(p.O)
	if len(p.Path) == 0 {
		p.O.V = assignInto(p.O.V, val)
		return
	}
	v := p.O.V
	for k, i := range p.Path {
		last := k == len(p.Path)-1
		switch x := v.(type) {
		case *StructV:
			if last {
				x.F[i] = assignInto(x.F[i], val)
				return
			}
			v = x.F[i]
		case *ArrayV:
			if last {
				x.E[i] = assignInto(x.E[i], val)
				return
			}
			v = x.E[i]
		default:
			panic(it.bug("store: bad path through %T", v))
		}
	}
}

// assignInto writes src over dst, keeping existing aggregate nodes (so that
// slices aliasing a nested array keep seeing the updates).
func assignInto(dst, src Value) Value {
	switch s := src.(type) {
	case *StructV:
		if d, ok := dst.(*StructV); ok && len(d.F) == len(s.F) && d != s {
			for i := range s.F {
				d.F[i] = assignInto(d.F[i], s.F[i])
			}
			return d
		}
	case *ArrayV:
		if d, ok := dst.(*ArrayV); ok && len(d.E) == len(s.E) && d != s {
			for i := range s.E {
				d.E[i] = assignInto(d.E[i], s.E[i])
			}
			return d
		}
	}
	return deepCopy(src)
}

func extendPath(p []int, i int) []int {
	n := make([]int, len(p)+1)
	copy(n, p)
	n[len(p)] = i
	return n
}

// ---------- types ----------

func intWidth(t types.Type) (w int, signed bool, ok bool) {
	b, isb := t.Underlying().(*types.Basic)
	if !isb {
		return 0, false, false
	}
	switch b.Kind() {
	case types.Int8:
		return 8, true, true
	case types.Int16:
		return 16, true, true
	case types.Int32:
		return 32, true, true
	case types.Int64, types.Int, types.UntypedInt:
		return 64, true, true
	case types.Uint8:
		return 8, false, true
	case types.Uint16:
		return 16, false, true
	case types.Uint32:
		return 32, false, true
	case types.Uint64, types.Uint, types.Uintptr:
		return 64, false, true
	case types.UntypedRune:
		return 32, true, true
	}
	return 0, false, false
}

func isNamed(t types.Type, pkg, name string) bool {
	n, ok := t.(*types.Named)
	if !ok {
		if a, ok2 := t.(*types.Alias); ok2 {
			return isNamed(types.Unalias(a), pkg, name)
		}
		return false
	}
	o := n.Obj()
	return o.Name() == name && o.Pkg() != nil && o.Pkg().Path() == pkg
}

func (it *Interp) zero(t types.Type) Value {
	if isNamed(t, "math/big", "Int") {
		return BigV{it.C.IntI(0)}
	}
	if z, ok := it.modelZero(t); ok {
		return z
	}
	switch u := t.Underlying().(type) {
	case *types.Basic:
		if w, _, ok := intWidth(u); ok {
			return it.C.BVU(0, w)
		}
		switch u.Kind() {
		case types.Bool, types.UntypedBool:
			return it.C.False
		case types.String, types.UntypedString:
			return StrV{}
		case types.Float32, types.Float64, types.UntypedFloat:
			return FloatV(0)
		case types.UnsafePointer:
			return PtrV{}
		case types.UntypedNil, types.Invalid:
			return nil
		}
		panic(it.bug("zero: basic kind %v", u))
	case *types.Pointer:
		return PtrV{}
	case *types.Slice:
		return SliceV{}
	case *types.Map:
		return (*MapObj)(nil)
	case *types.Chan:
		return (*ChanObj)(nil)
	case *types.Signature:
		return (*FuncV)(nil)
	case *types.Interface:
		return IfaceV{}
	case *types.Struct:
		s := &StructV{F: make([]Value, u.NumFields())}
		for i := range s.F {
			s.F[i] = it.zero(u.Field(i).Type())
		}
		return s
	case *types.Array:
		n := int(u.Len())
		a := &ArrayV{E: make([]Value, n)}
		if n > 0 {
			z := it.zero(u.Elem())
			for i := range a.E {
				if i == 0 {
					a.E[i] = z
				} else {
					a.E[i] = deepCopy(z)
				}
			}
		}
		return a
	case *types.Tuple:
		tv := make(TupleV, u.Len())
		for i := range tv {
			tv[i] = it.zero(u.At(i).Type())
		}
		return tv
	}
	panic(it.bug("zero: type %v", t))
}

// ---------- strings ----------

func (s StrV) Len() int {
	if s.B != nil {
		return len(s.B)
	}
	return len(s.S)
}

func (s StrV) Concrete() bool { return s.B == nil }

func (it *Interp) strBytes(s StrV) []*smt.Term {
	if s.B != nil {
		return s.B
	}
	b := make([]*smt.Term, len(s.S))
	for i := 0; i < len(s.S); i++ {
		b[i] = it.C.BVU(uint64(s.S[i]), 8)
	}
	return b
}

func (it *Interp) mkStr(b []*smt.Term) StrV {
	conc := true
	for _, t := range b {
		if !t.IsConst() {
			conc = false
			break
		}
	}
	if conc {
		bs := make([]byte, len(b))
		for i, t := range b {
			bs[i] = byte(t.Uint64())
		}
		return StrV{S: string(bs)}
	}
	if len(b) == 0 {
		return StrV{}
	}
	return StrV{B: b}
}

// sliceElems returns the element values visible through the slice.
func sliceElems(s SliceV) []Value {
	if s.O == nil {
		return nil
	}
	return s.O.V.(*ArrayV).E[s.Off : s.Off+s.Len]
}

func (it *Interp) bytesOf(v Value) []*smt.Term {
	switch x := v.(type) {
	case SliceV:
		el := sliceElems(x)
		r := make([]*smt.Term, len(el))
		for i, e := range el {
			r[i] = e.(*smt.Term)
		}
		return r
	case StrV:
		return it.strBytes(x)
	case *ArrayV:
		r := make([]*smt.Term, len(x.E))
		for i, e := range x.E {
			r[i] = e.(*smt.Term)
		}
		return r
	}
	panic(it.bug("bytesOf %T", v))
}

func (it *Interp) mkByteSlice(b []*smt.Term) SliceV {
	a := &ArrayV{E: make([]Value, len(b))}
	for i, t := range b {
		a.E[i] = t
	}
	return SliceV{O: it.newObj(a, "bytes"), Off: 0, Len: len(b), Cap: len(b)}
}

func (it *Interp) concBytes(b []byte) []*smt.Term {
	r := make([]*smt.Term, len(b))
	for i, x := range b {
		r[i] = it.C.BVU(uint64(x), 8)
	}
	return r
}

func allConst(b []*smt.Term) bool {
	for _, t := range b {
		if !t.IsConst() {
			return false
		}
	}
	return true
}

func constBytes(b []*smt.Term) []byte {
	r := make([]byte, len(b))
	for i, t := range b {
		r[i] = byte(t.Uint64())
	}
	return r
}

// ---------- equality ----------

// eqTerm builds the Bool term for a == b (Go comparable semantics).
func (it *Interp) eqTerm(a, b Value) *smt.Term {
	c := it.C
	switch x := a.(type) {
	case nil:
		// untyped nil vs something
		return it.isNilTerm(b)
	case *smt.Term:
		y, ok := b.(*smt.Term)
		if !ok {
			panic(it.bug("eq: term vs %T", b))
		}
		return c.Eq(x, y)
	case FloatV:
		return c.BoolConst(x == b.(FloatV))
	case StrV:
		y := b.(StrV)
		if x.Len() != y.Len() {
			return c.False
		}
		if x.Concrete() && y.Concrete() {
			return c.BoolConst(x.S == y.S)
		}
		return it.bytesEqTerm(it.strBytes(x), it.strBytes(y))
	case PtrV:
		if b == nil {
			return c.BoolConst(x.O == nil)
		}
		y := b.(PtrV)
		if x.O != y.O || len(x.Path) != len(y.Path) {
			return c.False
		}
		for i := range x.Path {
			if x.Path[i] != y.Path[i] {
				return c.False
			}
		}
		return c.True
	case *StructV:
		y := b.(*StructV)
		r := c.True
		for i := range x.F {
			r = c.And(r, it.eqTerm(x.F[i], y.F[i]))
		}
		return r
	case *ArrayV:
		y := b.(*ArrayV)
		r := c.True
		for i := range x.E {
			r = c.And(r, it.eqTerm(x.E[i], y.E[i]))
		}
		return r
	case IfaceV:
		y, ok := b.(IfaceV)
		if !ok {
			if b == nil {
				return c.BoolConst(x.T == nil)
			}
			panic(it.bug("eq: iface vs %T", b))
		}
		if x.T == nil || y.T == nil {
			return c.BoolConst(x.T == nil && y.T == nil)
		}
		if !types.Identical(x.T, y.T) {
			return c.False
		}
		return it.eqTerm(x.V, y.V)
	case *MapObj:
		if b == nil {
			return c.BoolConst(x == nil)
		}
		return c.BoolConst(x == b.(*MapObj))
	case *ChanObj:
		if b == nil {
			return c.BoolConst(x == nil)
		}
		return c.BoolConst(x == b.(*ChanObj))
	case *FuncV:
		if y, ok := b.(*FuncV); ok && y != nil && x != nil {
			panic(it.bug("eq: func comparison"))
		}
		return c.BoolConst(x == nil)
	case SliceV:
		// only comparison with nil is legal
		return c.BoolConst(x.O == nil)
	case BigV:
		return c.Eq(x.T, b.(BigV).T)
	case *Blob:
		if b == nil {
			return c.False
		}
		if sb, ok := b.(SliceV); ok && sb.O == nil {
			return c.False
		}
	case OpaqueV:
		it.abort("comparison of opaque value (%s)", x.Why)
	}
	if m, ok := it.modelEq(a, b); ok {
		return m
	}
	panic(it.bug("eq: unsupported %T vs %T", a, b))
}

func (it *Interp) isNilTerm(v Value) *smt.Term {
	c := it.C
	switch x := v.(type) {
	case nil:
		return c.True
	case PtrV:
		return c.BoolConst(x.O == nil)
	case SliceV:
		return c.BoolConst(x.O == nil)
	case IfaceV:
		return c.BoolConst(x.T == nil)
	case *MapObj:
		return c.BoolConst(x == nil)
	case *ChanObj:
		return c.BoolConst(x == nil)
	case *FuncV:
		return c.BoolConst(x == nil)
	case *Blob:
		return c.False
	}
	if m, ok := it.modelIsNil(v); ok {
		return m
	}
	panic(it.bug("isNil: %T", v))
}

// ---------- debug printing ----------

func (it *Interp) show(v Value) string {
	var sb strings.Builder
	it.showRec(&sb, v, 0)
	return sb.String()
}

func (it *Interp) showRec(sb *strings.Builder, v Value, d int) {
	if d > 6 {
		sb.WriteString("…")
		return
	}
	switch x := v.(type) {
	case nil:
		sb.WriteString("nil")
	case *smt.Term:
		sb.WriteString(it.C.String(x))
	case StrV:
		if x.Concrete() {
			fmt.Fprintf(sb, "%q", x.S)
		} else {
			fmt.Fprintf(sb, "str[%d]", len(x.B))
		}
	case *StructV:
		sb.WriteString("{")
		for i, f := range x.F {
			if i > 0 {
				sb.WriteString(" ")
			}
			it.showRec(sb, f, d+1)
		}
		sb.WriteString("}")
	case *ArrayV:
		sb.WriteString("[")
		for i, f := range x.E {
			if i > 0 {
				sb.WriteString(" ")
			}
			if i > 8 {
				sb.WriteString("…")
				break
			}
			it.showRec(sb, f, d+1)
		}
		sb.WriteString("]")
	case SliceV:
		if x.O == nil {
			sb.WriteString("nil-slice")
			return
		}
		sb.WriteString("slice")
		it.showRec(sb, &ArrayV{E: sliceElems(x)}, d+1)
	case PtrV:
		if x.O == nil {
			sb.WriteString("nil-ptr")
		} else {
			fmt.Fprintf(sb, "&obj%d%v", x.O.ID, x.Path)
		}
	case IfaceV:
		if x.T == nil {
			sb.WriteString("nil-iface")
		} else {
			fmt.Fprintf(sb, "iface(%s:", x.T.String())
			it.showRec(sb, x.V, d+1)
			sb.WriteString(")")
		}
	case BigV:
		sb.WriteString("big:" + it.C.String(x.T))
	case TupleV:
		sb.WriteString("(")
		for i, f := range x {
			if i > 0 {
				sb.WriteString(", ")
			}
			it.showRec(sb, f, d+1)
		}
		sb.WriteString(")")
	default:
		fmt.Fprintf(sb, "%T", v)
	}
}

func bigFromInt(i int) *big.Int { return big.NewInt(int64(i)) }

// touch is called before an object is mutated. Objects created during package initialisation are shared
// by all paths of a worker: the first mutation on a path snapshots the object so that it can be restored
// when the path ends.
func (it *Interp) touch(o *Obj) {
	if !o.Frozen || it.inInit > 0 {
		return
	}
	if it.undo == nil {
		it.undo = map[*Obj]Value{}
	}
	if _, ok := it.undo[o]; !ok {
		it.undo[o] = deepCopy(o.V)
	}
}

func (it *Interp) restoreFrozen() {
	for o, v := range it.undo {
		o.V = v
	}
	it.undo = nil
}

// bytesEqTerm: equality of two equally long byte strings; aligned big-endian encodings of Ints are compared
// as Ints (and as canonical scalars when both are reduced mod the group order).
func (it *Interp) bytesEqTerm(xb, yb []*smt.Term) *smt.Term {
	c := it.C
	r := c.True
	i := 0
	for i < len(xb) {
		if xb[i] == yb[i] {
			i++
			continue
		}
		if it.M != nil && it.M.intBytes != nil {
			sx, okx := it.M.intBytes[xb[i]]
			sy, oky := it.M.intBytes[yb[i]]
			if okx && oky && len(sx.bytes) == len(sy.bytes) && i+len(sx.bytes) <= len(xb) {
				full := true
				for k := range sx.bytes {
					if sx.bytes[k] != xb[i+k] || sy.bytes[k] != yb[i+k] {
						full = false
						break
					}
				}
				if full {
					if it.isReduced(sx.x) && it.isReduced(sy.x) {
						r = c.And(r, it.scEq(sx.x, sy.x))
					} else {
						r = c.And(r, c.Eq(sx.x, sy.x))
					}
					i += len(sx.bytes)
					continue
				}
			}
		}
		r = c.And(r, c.Eq(xb[i], yb[i]))
		i++
	}
	return r
}
