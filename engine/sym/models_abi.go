package sym

import (
	"go/types"

	"golang.org/x/tools/go/ssa"
)

func fieldIndex(t types.Type, name string) int {
	st, ok := t.Underlying().(*types.Struct)
	if !ok {
		return -1
	}
	for i := 0; i < st.NumFields(); i++ {
		if st.Field(i).Name() == name {
			return i
		}
	}
	return -1
}

// go-ethereum abi: types are carried by their type string; Pack is an injective uninterpreted function
// (registered in models_hash.go once the byte-chunk model exists).
func init() {
	Register("github.com/ethereum/go-ethereum/accounts/abi.NewType", func(it *Interp, fn *ssa.Function, a []Value) Value {
		rt := fn.Signature.Results().At(0).Type()
		v := it.zero(rt).(*StructV)
		if i := fieldIndex(rt, "stringKind"); i >= 0 {
			v.F[i] = a[0]
		}
		return TupleV{v, IfaceV{}}
	})
}
