package sym

import (
	"fmt"
	"go/types"
	"strings"

	"golang.org/x/tools/go/ssa"

	"symgo/smt"
)

const sdkTypes = "github.com/cosmos/cosmos-sdk/types"

func (it *Interp) namedType(pkg, name string) types.Type {
	p := it.L.Package(pkg)
	if p == nil {
		it.abort("package %s not loaded", pkg)
	}
	t := p.Type(name)
	if t == nil {
		it.abort("type %s.%s not found", pkg, name)
	}
	return t.Type()
}

// newStructPtr allocates a struct of type t with the given fields set.
func (it *Interp) newStructPtr(t types.Type, fields map[string]Value) PtrV {
	sv := it.zero(t).(*StructV)
	for n, v := range fields {
		i := fieldIndex(t, n)
		if i < 0 {
			it.abort("no field %s in %s", n, t.String())
		}
		sv.F[i] = v
	}
	return PtrV{O: it.newObj(sv, t.String())}
}

// ---------- codec model ----------

type CodecV struct{}

// deepCopyMsg copies a message value following pointers and slices (a marshal/unmarshal round trip).
// normalize: empty slices become nil (what proto unmarshalling produces).
func (it *Interp) deepCopyMsg(v Value, normalize bool) Value {
	switch x := v.(type) {
	case *StructV:
		n := &StructV{F: make([]Value, len(x.F))}
		for i, f := range x.F {
			n.F[i] = it.deepCopyMsg(f, normalize)
		}
		return n
	case *ArrayV:
		n := &ArrayV{E: make([]Value, len(x.E))}
		for i, f := range x.E {
			n.E[i] = it.deepCopyMsg(f, normalize)
		}
		return n
	case SliceV:
		if x.O == nil || (normalize && x.Len == 0) {
			return SliceV{}
		}
		el := sliceElems(x)
		// gogoproto unmarshals a bytes field with append(m.F[:0], wire...): the fresh backing array has the
		// capacity of Go's allocation size class (see unmarshalByteCap in models_yoda.go)
		ncap := len(el)
		if normalize {
			ncap = unmarshalByteCap(el)
		}
		arr := &ArrayV{E: make([]Value, ncap)}
		for i, e := range el {
			arr.E[i] = it.deepCopyMsg(e, normalize)
			if sv, ok := arr.E[i].(SliceV); ok && normalize {
				sv.Cap = sv.Len // repeated bytes: make([]byte, n) + copy
				arr.E[i] = sv
			}
		}
		for i := len(el); i < ncap; i++ {
			arr.E[i] = it.C.BVU(0, 8)
		}
		return SliceV{O: it.newObj(arr, "msgslice"), Len: len(el), Cap: ncap}
	case PtrV:
		if x.O == nil {
			return x
		}
		return PtrV{O: it.newObj(it.deepCopyMsg(it.navigate(x), normalize), "msgptr")}
	case IfaceV:
		if x.T == nil {
			return x
		}
		return IfaceV{T: x.T, V: it.deepCopyMsg(x.V, normalize)}
	case *MapObj:
		if x == nil {
			return x
		}
		it.nobj++
		n := &MapObj{ID: it.nobj}
		for i := range x.Keys {
			n.Keys = append(n.Keys, it.deepCopyMsg(x.Keys[i], normalize))
			n.Vals = append(n.Vals, it.deepCopyMsg(x.Vals[i], normalize))
		}
		return n
	}
	return v
}

func (it *Interp) marshalMsg(msg Value) Value {
	iv, ok := msg.(IfaceV)
	if !ok || iv.T == nil {
		it.abort("marshal of %T", msg)
	}
	p, ok := iv.V.(PtrV)
	if !ok {
		it.abort("marshal of non-pointer message %s", iv.T.String())
	}
	if p.O == nil {
		it.goPanicNilDeref()
	}
	et := iv.T.Underlying().(*types.Pointer).Elem()
	return &Blob{T: et, V: it.deepCopyMsg(it.navigate(p), false)}
}

// unmarshalMsg returns false when the bytes are not a blob of the right type.
func (it *Interp) unmarshalMsg(bz Value, target Value) bool {
	iv, ok := target.(IfaceV)
	if !ok || iv.T == nil {
		it.abort("unmarshal into %T", target)
	}
	p := iv.V.(PtrV)
	et := iv.T.Underlying().(*types.Pointer).Elem()
	switch b := bz.(type) {
	case *Blob:
		if !types.Identical(b.T, et) {
			it.abort("unmarshal of %s blob into %s", b.T.String(), et.String())
		}
		it.store(p, it.deepCopyMsg(b.V, true))
		return true
	case SliceV:
		if b.Len == 0 {
			it.store(p, it.zero(et))
			return true
		}
		it.abort("unmarshal of raw bytes into %s", et.String())
	}
	it.abort("unmarshal of %T", bz)
	return false
}

func init() {
	invokeHooks = append(invokeHooks, func(it *Interp, iv IfaceV, m *types.Func, a []Value) (Value, bool) {
		if _, ok := iv.V.(CodecV); !ok {
			return nil, false
		}
		switch m.Name() {
		case "MustMarshal":
			return it.marshalMsg(a[0]), true
		case "Marshal":
			return TupleV{it.marshalMsg(a[0]), IfaceV{}}, true
		case "MustUnmarshal":
			it.unmarshalMsg(a[0], a[1])
			return nil, true
		case "Unmarshal":
			it.unmarshalMsg(a[0], a[1])
			return IfaceV{}, true
		case "MustMarshalJSON", "MarshalJSON":
			return OpaqueV{Why: "codec JSON"}, true
		}
		it.abort("codec method %s not modelled", m.Name())
		return nil, true
	})
	Register(VE+"Codec", func(it *Interp, fn *ssa.Function, a []Value) Value {
		return IfaceV{T: tyCodec, V: CodecV{}}
	})
	Register(VE+"NewContext", func(it *Interp, fn *ssa.Function, a []Value) Value {
		rt := fn.Signature.Results().At(0).Type()
		ctx := it.zero(rt).(*StructV)
		ctx.F[fieldIndex(rt, "ms")] = IfaceV{T: tyMultiStore, V: it.newLayer(nil)}
		return ctx
	})
	// gogoproto Clone: deep copy
	cloneFn := func(it *Interp, fn *ssa.Function, a []Value) Value {
		iv := a[0].(IfaceV)
		if iv.T == nil {
			return iv
		}
		return IfaceV{T: iv.T, V: it.deepCopyMsg(iv.V, false)}
	}
	Register("github.com/cosmos/gogoproto/proto.Clone", cloneFn)
	Register("github.com/golang/protobuf/proto.Clone", cloneFn)

	// errors
	Register("cosmossdk.io/errors.Wrap", func(it *Interp, fn *ssa.Function, a []Value) Value {
		err := a[0].(IfaceV)
		if err.T == nil {
			return IfaceV{}
		}
		t := it.namedType("cosmossdk.io/errors", "wrappedError")
		p := it.newStructPtr(t, map[string]Value{"parent": err, "msg": a[1]})
		return IfaceV{T: types.NewPointer(t), V: p}
	})
	Register("cosmossdk.io/errors.Wrapf", func(it *Interp, fn *ssa.Function, a []Value) Value {
		err := a[0].(IfaceV)
		if err.T == nil {
			return IfaceV{}
		}
		t := it.namedType("cosmossdk.io/errors", "wrappedError")
		p := it.newStructPtr(t, map[string]Value{"parent": err, "msg": OpaqueV{Why: "Wrapf message"}})
		return IfaceV{T: types.NewPointer(t), V: p}
	})
	Register("cosmossdk.io/errors.errIsNil", func(it *Interp, fn *ssa.Function, a []Value) Value {
		iv := a[0].(IfaceV)
		if iv.T == nil {
			return it.C.True
		}
		if p, ok := iv.V.(PtrV); ok && p.O == nil {
			return it.C.True
		}
		return it.C.False
	})
	Register("("+sdkTypes+".Event).AppendAttributes", func(it *Interp, fn *ssa.Function, a []Value) Value {
		return OpaqueV{Why: "event"}
	})
	Register("(*cosmossdk.io/errors.wrappedError).Error", func(it *Interp, fn *ssa.Function, a []Value) Value {
		return OpaqueV{Why: "wrapped error text"}
	})

	// events are ignored
	for _, n := range []string{"NewEvent", "NewAttribute", "TypedEventToEvent"} {
		name := n
		Register(sdkTypes+"."+name, func(it *Interp, fn *ssa.Function, a []Value) Value {
			return it.opaqueResult(fn.Signature, "event "+name)
		})
	}
	for _, n := range []string{"EmitEvent", "EmitEvents", "EmitTypedEvent", "EmitTypedEvents", "Events", "ABCIEvents"} {
		name := n
		Register("(*"+sdkTypes+".EventManager)."+name, func(it *Interp, fn *ssa.Function, a []Value) Value {
			return it.opaqueResult(fn.Signature, "event manager "+name)
		})
	}
	Register("("+sdkTypes+".Context).EventManager", func(it *Interp, fn *ssa.Function, a []Value) Value {
		return IfaceV{T: tyOpaque, V: OpaqueV{Why: "event manager"}}
	})
	Register("("+sdkTypes+".Context).GasMeter", func(it *Interp, fn *ssa.Function, a []Value) Value {
		return IfaceV{T: tyOpaque, V: OpaqueV{Why: "gas meter"}}
	})
	Register("("+sdkTypes+".Context).Logger", func(it *Interp, fn *ssa.Function, a []Value) Value {
		return OpaqueV{Why: "logger"}
	})

	// bech32 addresses (concrete bytes only: identifiers are concrete by the harness policy)
	addrString := func(hrp string) func(it *Interp, fn *ssa.Function, a []Value) Value {
		return func(it *Interp, fn *ssa.Function, a []Value) Value {
			s := a[0].(SliceV)
			if s.Len == 0 {
				return StrV{}
			}
			bs := it.bytesOf(s)
			if !allConst(bs) {
				it.abort("bech32 encoding of symbolic address bytes")
			}
			r, err := bech32Encode(hrp, constBytes(bs))
			if err != nil {
				it.abort("bech32: %v", err)
			}
			return StrV{S: r}
		}
	}
	Register("("+sdkTypes+".AccAddress).String", addrString("band"))
	Register("("+sdkTypes+".ValAddress).String", addrString("bandvaloper"))
	Register("("+sdkTypes+".ConsAddress).String", addrString("bandvalcons"))
	addrFrom := func(hrp string, must bool) func(it *Interp, fn *ssa.Function, a []Value) Value {
		return func(it *Interp, fn *ssa.Function, a []Value) Value {
			s, ok := a[0].(StrV)
			if !ok || !s.Concrete() {
				it.abort("bech32 decoding of a symbolic string")
			}
			fail := func(msg string) Value {
				if must {
					it.goPanicStr("explicit", "bech32: "+msg)
				}
				return TupleV{SliceV{}, it.opaqueError("bech32 " + msg)}
			}
			if len(strings.TrimSpace(s.S)) == 0 {
				return fail("empty address string is not allowed")
			}
			h, data, err := bech32Decode(s.S)
			if err != nil {
				return fail(err.Error())
			}
			if h != hrp {
				return fail("invalid prefix")
			}
			if len(data) == 0 || len(data) > 255 {
				return fail("bad address length")
			}
			v := it.mkByteSlice(it.concBytes(data))
			if must {
				return v
			}
			return TupleV{v, IfaceV{}}
		}
	}
	Register(sdkTypes+".AccAddressFromBech32", addrFrom("band", false))
	Register(sdkTypes+".MustAccAddressFromBech32", addrFrom("band", true))
	Register(sdkTypes+".ValAddressFromBech32", addrFrom("bandvaloper", false))
	Register(sdkTypes+".ValidateDenom", func(it *Interp, fn *ssa.Function, a []Value) Value {
		s, ok := a[0].(StrV)
		if !ok || !s.Concrete() {
			it.abort("ValidateDenom of symbolic denom")
		}
		if len(s.S) < 3 || len(s.S) > 128 || !(s.S[0] >= 'a' && s.S[0] <= 'z' || s.S[0] >= 'A' && s.S[0] <= 'Z') {
			return it.opaqueError("invalid denom")
		}
		return IfaceV{}
	})
	Register(sdkTypes+".MsgTypeURL", func(it *Interp, fn *ssa.Function, a []Value) Value {
		iv := a[0].(IfaceV)
		return StrV{S: "/" + iv.T.String()}
	})
}

// ---------- bech32 (BIP-173) ----------

const bech32Charset = "qpzry9x8gf2tvdw0s3jn54khce6mua7l"

func bech32Polymod(values []byte) uint32 {
	gen := []uint32{0x3b6a57b2, 0x26508e6d, 0x1ea119fa, 0x3d4233dd, 0x2a1462b3}
	chk := uint32(1)
	for _, v := range values {
		b := chk >> 25
		chk = (chk&0x1ffffff)<<5 ^ uint32(v)
		for i := 0; i < 5; i++ {
			if (b>>uint(i))&1 == 1 {
				chk ^= gen[i]
			}
		}
	}
	return chk
}

func bech32HrpExpand(hrp string) []byte {
	var r []byte
	for i := 0; i < len(hrp); i++ {
		r = append(r, hrp[i]>>5)
	}
	r = append(r, 0)
	for i := 0; i < len(hrp); i++ {
		r = append(r, hrp[i]&31)
	}
	return r
}

func convertBits(data []byte, from, to uint, pad bool) ([]byte, error) {
	acc, bits := uint32(0), uint(0)
	var out []byte
	maxv := uint32(1<<to) - 1
	for _, b := range data {
		if uint32(b)>>from != 0 {
			return nil, fmt.Errorf("invalid data range")
		}
		acc = acc<<from | uint32(b)
		bits += from
		for bits >= to {
			bits -= to
			out = append(out, byte(acc>>bits&maxv))
		}
	}
	if pad {
		if bits > 0 {
			out = append(out, byte(acc<<(to-bits)&maxv))
		}
	} else if bits >= from || (acc<<(to-bits))&maxv != 0 {
		return nil, fmt.Errorf("invalid padding")
	}
	return out, nil
}

func bech32Encode(hrp string, data []byte) (string, error) {
	conv, err := convertBits(data, 8, 5, true)
	if err != nil {
		return "", err
	}
	values := append(bech32HrpExpand(hrp), conv...)
	pm := bech32Polymod(append(values, 0, 0, 0, 0, 0, 0)) ^ 1
	var sb strings.Builder
	sb.WriteString(hrp)
	sb.WriteByte('1')
	for _, v := range conv {
		sb.WriteByte(bech32Charset[v])
	}
	for i := 0; i < 6; i++ {
		sb.WriteByte(bech32Charset[(pm>>uint(5*(5-i)))&31])
	}
	return sb.String(), nil
}

func bech32Decode(s string) (string, []byte, error) {
	if strings.ToLower(s) != s && strings.ToUpper(s) != s {
		return "", nil, fmt.Errorf("mixed case")
	}
	s = strings.ToLower(s)
	pos := strings.LastIndexByte(s, '1')
	if pos < 1 || pos+7 > len(s) {
		return "", nil, fmt.Errorf("invalid separator index")
	}
	hrp := s[:pos]
	var data []byte
	for i := pos + 1; i < len(s); i++ {
		d := strings.IndexByte(bech32Charset, s[i])
		if d < 0 {
			return "", nil, fmt.Errorf("invalid character")
		}
		data = append(data, byte(d))
	}
	if bech32Polymod(append(bech32HrpExpand(hrp), data...)) != 1 {
		return "", nil, fmt.Errorf("invalid checksum")
	}
	conv, err := convertBits(data[:len(data)-6], 5, 8, false)
	if err != nil {
		return "", nil, err
	}
	return hrp, conv, nil
}

var _ = smt.Bool
