package sym

import (
	"go/types"

	"golang.org/x/tools/go/ssa"
)

// codectypes.Any model.
//
// NewAnyWithValue(v) builds the real Any struct with
//   - TypeUrl     = "/" + <Go type of v>  (injective per message type; the code under test only compares
//     type URLs for equality),
//   - Value       = the codec blob of v (a deep copy, as the serialized bytes would be),
//   - cachedValue = v itself (same pointer, as in the real implementation).
//
// GetCachedValue runs its real source (a field read). The codec blob model deep-copies the cached value on
// Marshal/Unmarshal, which is what the real ProtoCodec re-creates through UnpackInterfaces; UnpackAny on a
// value with a populated cache therefore only has to hand out the cached value.

const codecTypesPkg = "github.com/cosmos/cosmos-sdk/codec/types"

func (it *Interp) anyTypeURL(iv IfaceV) StrV {
	t := iv.T
	if p, ok := t.Underlying().(*types.Pointer); ok {
		t = p.Elem()
	}
	return StrV{S: "/" + t.String()}
}

func init() {
	Register(codecTypesPkg+".NewAnyWithValue", func(it *Interp, fn *ssa.Function, a []Value) Value {
		iv, ok := a[0].(IfaceV)
		if !ok {
			it.abort("NewAnyWithValue of %T", a[0])
		}
		anyT := it.namedType(codecTypesPkg, "Any")
		if iv.T == nil {
			return TupleV{PtrV{}, it.opaqueError("Expecting non nil value to create a new Any")}
		}
		if p, isPtr := iv.V.(PtrV); isPtr && p.O == nil {
			// proto.Marshal of a typed nil pointer returns ErrNil
			return TupleV{PtrV{}, it.opaqueError("proto: Marshal called with nil")}
		}
		p := it.newStructPtr(anyT, map[string]Value{
			"TypeUrl":     it.anyTypeURL(iv),
			"Value":       it.marshalMsg(iv),
			"cachedValue": iv,
		})
		return TupleV{p, IfaceV{}}
	})
	Register(codecTypesPkg+".MsgTypeURL", func(it *Interp, fn *ssa.Function, a []Value) Value {
		iv := a[0].(IfaceV)
		if iv.T == nil {
			it.goPanicNilDeref()
		}
		return it.anyTypeURL(iv)
	})
	Register("github.com/cosmos/gogoproto/proto.MessageName", func(it *Interp, fn *ssa.Function, a []Value) Value {
		iv := a[0].(IfaceV)
		if iv.T == nil {
			it.goPanicNilDeref()
		}
		return StrV{S: it.anyTypeURL(iv).S[1:]}
	})
	// package-level "ModuleCdc = codec.NewProtoCodec(codectypes.NewInterfaceRegistry())" of the x/*/types packages:
	// the registry is reflection-based; the resulting codec is only used for JSON (opaque bytes).
	Register(codecTypesPkg+".NewInterfaceRegistry", func(it *Interp, fn *ssa.Function, a []Value) Value {
		return IfaceV{T: tyOpaque, V: OpaqueV{Why: "interface registry"}}
	})
	Register("github.com/cosmos/cosmos-sdk/codec.NewProtoCodec", func(it *Interp, fn *ssa.Function, a []Value) Value {
		return OpaqueV{Why: "module proto codec (JSON only)"}
	})
}
