package sym

import (
	"fmt"

	"golang.org/x/tools/go/ssa"

	"symgo/smt"
)

// Bit-vector variant of the uninterpreted sha256 (opt-in per path with vsupport.HashBitVectors()).
//
// The default hash model (models_hash.go) returns an uninterpreted Int in [0, 2^256), which suits the scalar
// arithmetic of the crypto harnesses. Code that only slices machine words out of a digest (grogu: the first eight
// bytes modulo a percentage) then drags int2bv over an uninterpreted Int into every later query, which z3 answers
// very slowly. With the opt-in the digest of a symbolic input is an uninterpreted function from the constant bytes
// (folded into the function name) and the symbolic bytes (one bit-vector argument) to a 256-bit vector: still only
// functional congruence, no other property of sha256 is assumed. Concrete inputs are hashed natively either way.
func init() {
	orig := intrinsics["crypto/sha256.Sum256"]
	Register(VS+"HashBitVectors", func(it *Interp, _ *ssa.Function, a []Value) Value {
		it.M.extra["hash.bv"] = true
		return nil
	})
	Register("crypto/sha256.Sum256", func(it *Interp, fn *ssa.Function, a []Value) Value {
		if ok, _ := it.M.extra["hash.bv"].(bool); !ok {
			return orig.Fn(it, fn, a)
		}
		bs := it.bytesOfAny(a[0])
		if allConst(bs) {
			return orig.Fn(it, fn, a)
		}
		c := it.C
		layout := ""
		var arg *smt.Term
		for _, b := range bs {
			if b.IsConst() {
				layout += fmt.Sprintf("%02x", b.Uint64())
				continue
			}
			layout += "S"
			if arg == nil {
				arg = b
			} else {
				arg = c.Concat(arg, b)
			}
		}
		h := c.App("sha256bv!"+layout, smt.BV(256), arg)
		arr := &ArrayV{E: make([]Value, 32)}
		for i := range arr.E {
			arr.E[i] = c.Extract(h, 255-8*i, 248-8*i)
		}
		return arr
	})
}
