#!/bin/bash
# H3/H4 mutation batch (see C12.mutations.md); runner: checks/C12.mutations.py (expects build/sgC12x and /root/w/repo-C12x)
cd "$(dirname "$0")/.."
M=./checks/C12.mutations.py
S=client/grpc/oracle/proof/signature.go
H=client/grpc/oracle/proof/block_header_merkle_parts.go
U=client/grpc/oracle/proof/util.go
$M k10 $S 'prefix = append(prefix, []byte{34, 72, 10, 32}...)' 'prefix = append(prefix, []byte{34, 72, 11, 32}...)' VerifC12VoteSignBytes
$M k32 $S 'prefix = append(prefix, []byte{34, 72, 10, 32}...)' 'prefix = append(prefix, []byte{34, 72, 10, 33}...)' VerifC12VoteSignBytes
$M k18 $S 'suffix = append([]byte{18}, suffix...)' 'suffix = append([]byte{19}, suffix...)' VerifC12VoteSignBytes
$M k42 $S '[]byte{42, uint8(len(encodedTimestamp))}' '[]byte{43, uint8(len(encodedTimestamp))}' VerifC12VoteSignBytes
$M k50 $S '[]byte{50, uint8(len(chainIDBytes))}' '[]byte{51, uint8(len(chainIDBytes))}' VerifC12VoteSignBytes
$M off11 $S 'prefix[1 : length-12]' 'prefix[1 : length-11]' VerifC12VoteSignBytes
$M off13 $S 'prefix[1 : length-12]' 'prefix[1 : length-13]' VerifC12VoteSignBytes
$M nilkept $S 'if vote.BlockIDFlag != cmttypes.BlockIDFlagCommit {' 'if vote.BlockIDFlag == cmttypes.BlockIDFlagAbsent {' VerifC12VoteSelection
$M s31 $S 'vote.Signature[32:],' 'vote.Signature[31:],' VerifC12VoteSelection
$M nosort $S 'sort.Strings(addrs)' 'if len(addrs) > 2 { sort.Strings(addrs) }' VerifC12VoteSelection
$M errswallow $S '		if err != nil {
			return nil, CommonEncodedVotePart{}, err
		}
		addrs = append' '		if err != nil {
			continue
		}
		addrs = append' VerifC12VoteSelection
$M tsother $S 'encodeTime(vote.Timestamp)' 'encodeTime(info.Commit.Signatures[0].Timestamp)' VerifC12VoteSelection
$M vminus $S 'uint32(v),' 'uint32(v) - 27,' VerifC12VoteSelection
$M chainlen $S '[]byte{50, uint8(len(chainIDBytes))}' '[]byte{50, uint8(len(chainIDBytes) + 1)}' VerifC12VoteSignBytes
$M round8 $S 'int64(info.Commit.Round),' 'int64(uint8(info.Commit.Round)),' VerifC12VoteSignBytes
$M nsalways $U '	if ns != 0 {' '	if ns >= 0 {' VerifC12Vote
$M nanosunix $H 'TimeNanoSecond: uint32(block.Time.Nanosecond()),' 'TimeNanoSecond: uint32(block.Time.Unix()),' VerifC12HeaderParts
$M swapevid $H '			cdcEncode(block.EvidenceHash),
			cdcEncode(block.ProposerAddress),' '			cdcEncode(block.ProposerAddress),
			cdcEncode(block.EvidenceHash),' VerifC12HeaderParts
$M appforcons $H 'cdcEncode(block.ConsensusHash),' 'cdcEncode(block.AppHash),' VerifC12HeaderParts
$M heightoff $H 'Height:         uint64(block.Height),' 'Height:         uint64(block.Height - 1),' VerifC12HeaderParts
$M dropdata $H '			cdcEncode(block.DataHash),
' '' VerifC12HeaderParts
$M prevote $S 'cmtproto.SignedMsgType(byte(cmtproto.PrecommitType)),' 'cmtproto.SignedMsgType(byte(cmtproto.PrevoteType)),' VerifC12VoteSignBytes
$M noprecommitcheck $S 'if len(addrs) == 0 {' 'if len(addrs) < 0 {' VerifC12VoteSelection
$M valaddrkey $S '		addrs = append(addrs, string(addr))
		mapAddrs[string(addr)] = TMSignature{' '		addr = vote.ValidatorAddress
		addrs = append(addrs, string(addr))
		mapAddrs[string(addr)] = TMSignature{' VerifC12VoteSelection
$M ethswap $H '		LastResultsHash:                   common.BytesToHash(bp.LastResultsHash),
		EvidenceAndProposerHash:           common.BytesToHash(bp.EvidenceAndProposerHash),' '		LastResultsHash:                   common.BytesToHash(bp.EvidenceAndProposerHash),
		EvidenceAndProposerHash:           common.BytesToHash(bp.LastResultsHash),' VerifC12HeaderParts
