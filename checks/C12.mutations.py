#!/usr/bin/env python3
# usage: mutC12x.py <name> <file> <old> <new> <only>
import subprocess, sys, os
name, f, old, new, only = sys.argv[1:6]
R = '/root/w/repo-C12x'
subprocess.check_call(['git', 'checkout', '-q', '--', '.'], cwd=R)
p = os.path.join(R, f)
s = open(p).read()
if s.count(old) != 1:
    print(f"MUT {name}: anchor occurs {s.count(old)} times"); sys.exit(1)
open(p, 'w').write(s.replace(old, new))
env = dict(os.environ, GOFLAGS='-mod=mod', GOPROXY='off', GOSUMDB='off', GOTOOLCHAIN='local')
log = f'/tmp/mutC12x_{name}.log'
with open(log, 'w') as out:
    rc = subprocess.call(['timeout', '1500', '/root/w/C12x/build/sgC12x', '-verif', '/root/w/C12x', '-repo', R, '-jobs', '6',
                          '-out', '/tmp/mutC12x_out', '-only', only, 'C12'], stdout=out, stderr=subprocess.STDOUT, env=env)
lines = [l for l in open(log, errors='replace') if l.startswith('VIOLATION') or 'label=' in l or l.startswith('INCONCLUSIVE')]
print(f"MUT {name}: exit={rc}; " + ' | '.join(l.strip()[:170] for l in lines[:6]))
subprocess.check_call(['git', 'checkout', '-q', '--', '.'], cwd=R)
