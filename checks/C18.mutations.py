#!/usr/bin/env python3
# usage: mutC18.py <name> ...   (runs the named mutations sequentially)
import subprocess, sys, os, re, time
R='/root/w/repo-C18'
V='/root/w/C18'
K='x/bandtss/keeper/'
M={
 'M1':(K+'keeper_transition.go','transition.ExecTime.After(ctx.BlockTime())','!transition.ExecTime.Before(ctx.BlockTime())','VerifC18EndBlock'),
 'M2':(K+'keeper_transition.go','if transition.Status != types.TRANSITION_STATUS_WAITING_EXECUTION {\n\t\tk.EndGroupTransitionProcess','if transition.Status == types.TRANSITION_STATUS_CREATING_GROUP {\n\t\tk.EndGroupTransitionProcess','VerifC18EndBlock'),
 'M3':(K+'keeper_transition.go','\t\tk.DeleteMembers(ctx, transition.CurrentGroupID)\n','','VerifC18EndBlock'),
 'M4':(K+'msg_server.go','''	// validate if transition is in progress
	if err := k.Keeper.ValidateTransitionInProgress(ctx); err != nil {
		return nil, err
	}

	groupID, err''','''	groupID, err''','VerifC18TransitionGroup'),
 'M5':(K+'keeper_transition.go','execTime.Before(minExecTime)','execTime.Before(ctx.BlockTime())','VerifC18TransitionGroup'),
 'M6':(K+'msg_server.go','if incomingGroup.Status != tsstypes.GROUP_STATUS_ACTIVE {','if incomingGroup.Status == tsstypes.GROUP_STATUS_FALLEN {','VerifC18ForceTransitionGroup'),
 'M7':(K+'msg_server.go','''	req *types.MsgForceTransitionGroup,
) (*types.MsgForceTransitionGroupResponse, error) {
	if k.Keeper.GetAuthority() != req.Authority {''','''	req *types.MsgForceTransitionGroup,
) (*types.MsgForceTransitionGroupResponse, error) {
	if false && k.Keeper.GetAuthority() != req.Authority {''','VerifC18ForceTransitionGroup'),
 'M8':(K+'tss_callback.go','''		transition.Status != types.TRANSITION_STATUS_CREATING_GROUP ||
		transition.ExecTime.Before(ctx.BlockTime()) {''','''		transition.Status != types.TRANSITION_STATUS_CREATING_GROUP {''','VerifC18GroupCreationCompleted'),
 'M9':(K+'tss_callback.go','cacheCtx, writeFn := ctx.CacheContext()','cacheCtx, writeFn := ctx, func() {}','VerifC18GroupCreationCompleted'),
 'M10':(K+'tss_callback.go','''	if found && signingID == transition.SigningID && transition.Status == types.TRANSITION_STATUS_WAITING_SIGN {
		// add Members''','''	if found && signingID == transition.SigningID {
		// add Members''','VerifC18SigningCompleted'),
 'M11':(K+'tss_callback.go','''	if found && signingID == transition.SigningID && transition.Status == types.TRANSITION_STATUS_WAITING_SIGN {
		cb.k.EndGroupTransitionProcess''','''	if found && transition.Status == types.TRANSITION_STATUS_WAITING_SIGN {
		cb.k.EndGroupTransitionProcess''','VerifC18SigningFailed'),
 'M12':(K+'keeper_signing.go','''				sdk.NewAttribute(types.AttributeKeySigningErrCode, fmt.Sprintf("%d", code)),
			))
		} else {''','''				sdk.NewAttribute(types.AttributeKeySigningErrCode, fmt.Sprintf("%d", code)),
			))
			return 0, err
		} else {''','VerifC18RequestDuringTransition'),
 'M13':(K+'keeper_signing.go','cacheCtx, writeFn := ctx.CacheContext()','cacheCtx, writeFn := ctx, func() {}','VerifC18RequestDuringTransition'),
 'M14':(K+'keeper_transition.go','if found && transition.Status == types.TRANSITION_STATUS_WAITING_EXECUTION {\n\t\treturn transition.IncomingGroupID','if found && transition.Status != types.TRANSITION_STATUS_CREATING_GROUP {\n\t\treturn transition.IncomingGroupID','VerifC18RequestDuringTransition'),
 'M15':(K+'tss_callback.go','''	if !found ||
		transition.IncomingGroupID != groupID ||
		transition.Status != types.TRANSITION_STATUS_CREATING_GROUP ||''','''	if !found ||
		transition.Status != types.TRANSITION_STATUS_CREATING_GROUP ||''','VerifC18GroupCreationCompleted'),
 'M16':(K+'keeper_transition.go','''	status := types.TRANSITION_STATUS_CREATING_GROUP
	if isForceTransition {''','''	status := types.TRANSITION_STATUS_CREATING_GROUP
	if true {''','VerifC18TransitionGroup'),
 'M17':(K+'keeper_transition.go','types.NewCurrentGroup(transition.IncomingGroupID, transition.ExecTime)','types.NewCurrentGroup(transition.CurrentGroupID, transition.ExecTime)','VerifC18EndBlock'),
 'M18':(K+'tss_callback.go','''func (cb TSSCallback) OnGroupCreationExpired(ctx sdk.Context, groupID tss.GroupID) {
	transition, found := cb.k.GetGroupTransition(ctx)
	if found &&
		transition.IncomingGroupID == groupID &&
		transition.Status == types.TRANSITION_STATUS_CREATING_GROUP {''','''func (cb TSSCallback) OnGroupCreationExpired(ctx sdk.Context, groupID tss.GroupID) {
	transition, found := cb.k.GetGroupTransition(ctx)
	if found &&
		transition.IncomingGroupID == groupID {''','VerifC18GroupCreationFailed'),
 'M19':(K+'tss_callback.go','''		if err := cb.k.AddMembers(ctx, transition.IncomingGroupID); err != nil {
			panic(err)
		}

		// update the transition status and info.''','''		// update the transition status and info.''','VerifC18SigningCompleted'),
 'M20':(K+'keeper_transition.go','execTime.After(maxExecTime)','execTime.After(maxExecTime.Add(1))','VerifC18ForceTransitionGroup'),
 'M22':(K+'keeper_transition.go','\tif transition.CurrentGroupID != 0 {\n\t\tk.DeleteMembers','\tif true {\n\t\tk.DeleteMembers','VerifC18EndBlock'),
 'M23':(K+'msg_server.go','''	// add members from new group.
	if err := k.Keeper.AddMembers(ctx, req.IncomingGroupID); err != nil {
		return nil, err
	}
''','','VerifC18ForceTransitionGroup'),
 'M24':(K+'tss_callback.go','''		bandtssSigning := cb.k.MustGetSigning(ctx, bandtssSigningID)
		cb.k.DeleteSigningIDMapping(ctx, signingID)
''','''		bandtssSigning := cb.k.MustGetSigning(ctx, bandtssSigningID)
''','VerifC18SigningCompleted'),
 'M21':(K+'msg_server.go','if currentGroupID == req.IncomingGroupID {','if currentGroupID == req.IncomingGroupID && false {','VerifC18ForceTransitionGroup'),
}
env=dict(os.environ,GOFLAGS='-mod=mod',GOPROXY='off',GOSUMDB='off',GOTOOLCHAIN='local')
for name in sys.argv[1:]:
    f,old,new,only=M[name]
    subprocess.check_call(['git','checkout','-q','--','.'],cwd=R)
    p=os.path.join(R,f); s=open(p).read()
    if s.count(old)!=1:
        print(f'MUT {name}: anchor found {s.count(old)} times'); continue
    open(p,'w').write(s.replace(old,new))
    t=time.time()
    log=f'/tmp/mutC18_{name}.log'
    with open(log,'w') as lf:
        rc=subprocess.call([V+'/build/sgC18','-verif',V,'-repo',R,'-jobs','6','-only',only,'C18'],stdout=lf,stderr=subprocess.STDOUT,env=env,cwd=V)
    out=open(log,errors='replace').read()
    viol=[l[:200] for l in out.splitlines() if l.startswith('VIOLATION')]
    inc=[l[:200] for l in out.splitlines() if l.startswith('INCONCLUSIVE')]
    print(f'MUT {name} [{only}]: exit={rc} violations={len(viol)} inconclusive={len(inc)} {time.time()-t:.0f}s')
    for l in viol[:3]: print('   ',l)
    for l in inc[:2]: print('   ',l)
    sys.stdout.flush()
    subprocess.check_call(['git','checkout','-q','--','.'],cwd=R)
